// statements for the statement-level slice: the variants its text builds (needs `Identifier`
// from prelude_astexpr_args.rs); every other variant of the real `AstStmt` is dropped
pub struct AstVariableDecl {
    pub namespace: Option<Spanned<Identifier>>,
    pub name: Identifier,
    pub value: AstExpr,
    pub is_guarded: bool,
    pub is_global: bool,
    pub span: Span,
}
pub struct AstIfClause { pub condition: AstExpr, pub body: Vec<AstStmt> }
pub struct AstIf { pub if_clauses: Vec<AstIfClause>, pub else_clause: Option<Vec<AstStmt>> }
pub struct AstEach { pub variables: Vec<Identifier>, pub list: AstExpr, pub body: Vec<AstStmt> }
pub struct AstWhile { pub condition: AstExpr, pub body: Vec<AstStmt> }
pub enum AstStmt {
    SilentComment(AstSilentComment),
    LoudComment(AstLoudComment),
    ImportRule(AstImportRule),
    VariableDecl(AstVariableDecl),
    If(AstIf),
    Each(AstEach),
    While(AstWhile),
}
