// Declared environment of the operator-stack slice of the expression parser
// (parse/value.rs). `BinaryOp` is the real enum (a variant added or removed in
// common.rs makes the extracted `precedence` fail to type-check: exit 2); expression
// nodes are opaque.
#[allow(unused_imports)]
use std::cmp::Ordering;
// the real enum derives PartialEq/Eq: `==` is structural equality
#[derive(Clone, Copy, PartialEq, Eq, Structural)]
pub enum BinaryOp { SingleEq, Equal, NotEqual, GreaterThan, GreaterThanEqual, LessThan, LessThanEqual, Plus, Minus, Mul, Div, Rem, And, Or }

/// The precedence levels of SassScript binary operators, from the language reference
/// (loosest to tightest): `=` ; or ; and ; == != ; < <= > >= ; + - ; * / %.
pub open spec fn spec_prec(op: BinaryOp) -> int {
    match op {
        BinaryOp::SingleEq => 0,
        BinaryOp::Or => 1,
        BinaryOp::And => 2,
        BinaryOp::Equal | BinaryOp::NotEqual => 3,
        BinaryOp::GreaterThan | BinaryOp::GreaterThanEqual | BinaryOp::LessThan | BinaryOp::LessThanEqual => 4,
        BinaryOp::Plus | BinaryOp::Minus => 5,
        BinaryOp::Mul | BinaryOp::Div | BinaryOp::Rem => 6,
    }
}

// opaque, but not a one-value type: distinct nodes must be distinguishable in the contracts
pub struct AstExpr { pub tag: u64 }
pub uninterp spec fn spec_binop(l: AstExpr, op: BinaryOp, r: AstExpr) -> AstExpr;
pub uninterp spec fn spec_slash(l: AstExpr, r: AstExpr) -> AstExpr;
pub struct Spanned<T> { pub node: T, pub span: Span }
impl Span {
    #[verifier::external_body]
    pub fn merge(&self, other: Span) -> Span { unimplemented!() }
}
impl AstExpr {
    #[verifier::external_body]
    pub fn is_slash_operand(&self) -> bool { unimplemented!() }
    #[verifier::external_body]
    pub fn slash(left: AstExpr, right: AstExpr, span: Span) -> (r: AstExpr)
        ensures r == spec_slash(left, right)
    { unimplemented!() }
    // R19: the node construction `AstExpr::BinaryOp(Arc::new(BinaryOpExpr { lhs, op, rhs, allows_slash: false, span }))`
    #[verifier::external_body]
    pub fn binary_op_node(lhs: AstExpr, op: BinaryOp, rhs: AstExpr, span: Span) -> (r: AstExpr)
        ensures r == spec_binop(lhs, op, rhs)
    { unimplemented!() }
    // R19: `AstExpr::List(ListExpr { elems, separator: ListSeparator::Space, brackets: Brackets::None })`
    #[verifier::external_body]
    pub fn space_list_node(elems: Vec<Spanned<AstExpr>>) -> AstExpr { unimplemented!() }
    #[verifier::external_body]
    pub fn span(self, span: Span) -> (r: Spanned<AstExpr>)
        ensures r.node == self
    { unimplemented!() }
}
pub struct ContextFlags { }
impl ContextFlags {
    #[verifier::external_body]
    pub fn in_parens(&self) -> bool { unimplemented!() }
}
impl P {
    #[verifier::external_body]
    pub fn flags(&self) -> &ContextFlags { unimplemented!() }
    #[verifier::external_body]
    pub fn is_plain_css(&self) -> bool { unimplemented!() }
    // R27: `flags_mut().set(FLAG, v)` as one method that leaves the lexer untouched
    #[verifier::external_body]
    pub fn flags_set_in_parens(&mut self, v: bool)
        ensures final(self).toks == old(self).toks
    { unimplemented!() }
}
