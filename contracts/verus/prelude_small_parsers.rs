// Declared environment of the keyframes-selector and @at-root query parser slices.
use std::collections::HashSet;
pub enum KeyframesSelector {
    To,
    From,
    Percent(Box<str>),
}
pub struct AtRootQuery { }
impl AtRootQuery {
    #[verifier::external_body]
    pub fn new(include: bool, names: HashSet<String>) -> AtRootQuery { unimplemented!() }
}
pub assume_specification[ String::into_boxed_str ](s: String) -> (r: Box<str>);
pub assume_specification[ str::to_ascii_lowercase ](s: &str) -> (r: String);
