// Declared environment of the parser slices (DESIGN.md §3.2 step 4).
//
// Everything in this file is an ASSUMPTION of the Verus units, not proved by
// Verus: the types are cut down to the fields the scanners read, and the
// `Lexer` methods are `external_body` with contracts.  Those same contracts are
// discharged on the real `lexer.rs` by Kani (obligations C01/K/lexer_*), so the
// two engines meet at the lexer interface.
//
// Dropped from the real types: Lexer.entire_span, Lexer.is_expanded (span
// bookkeeping, no influence on cursor movement), Token.pos is kept.

// the crate is only built for 64-bit targets here; fixes `usize::MAX` for the overflow obligations
global size_of usize == 8;

#[derive(Copy, Clone, Debug)]
pub struct Span { pub lo: u64, pub hi: u64 }

pub struct SassError { }
pub type SassResult<T> = Result<T, Box<SassError>>;

impl From<(&'static str, Span)> for Box<SassError> {
    #[verifier::external_body]
    fn from(e: (&'static str, Span)) -> Box<SassError> { unimplemented!() }
}
impl From<(String, Span)> for Box<SassError> {
    #[verifier::external_body]
    fn from(e: (String, Span)) -> Box<SassError> { unimplemented!() }
}

#[derive(Copy, Clone, Debug, Eq, PartialEq)]
pub struct Token { pub kind: char, pub pos: u32 }

pub struct Lexer { pub buf: Vec<Token>, pub cursor: usize }

impl Lexer {
    // `buf.len() <= MAX_TOKENS` is the allocation limit of a real `Vec<Token>`
    // (8-byte elements, at most isize::MAX bytes); it rules out `cursor + n` overflow in peek_n.
    pub open spec fn wf(&self) -> bool { self.cursor <= self.buf.len() && self.buf.len() <= 0x0fff_ffff_ffff_ffff }
    pub open spec fn rem(&self) -> int { self.buf.len() - self.cursor }

    #[verifier::external_body]
    pub fn peek(&self) -> (r: Option<Token>)
        ensures
            self.cursor < self.buf.len() ==> r == Some(self.buf@[self.cursor as int]),
            self.cursor >= self.buf.len() ==> r is None,
    { unimplemented!() }

    #[verifier::external_body]
    pub fn peek_n(&self, n: usize) -> (r: Option<Token>)
        requires self.cursor + n <= usize::MAX,
        ensures
            self.cursor + n < self.buf.len() ==> r == Some(self.buf@[self.cursor + n]),
            self.cursor + n >= self.buf.len() ==> r is None,
    { unimplemented!() }

    #[verifier::external_body]
    pub fn peek_n_backwards(&self, n: usize) -> (r: Option<Token>)
        ensures
            (n <= self.cursor && self.cursor - n < self.buf.len()) ==> r == Some(self.buf@[self.cursor - n]),
            !(n <= self.cursor && self.cursor - n < self.buf.len()) ==> r is None,
    { unimplemented!() }

    #[verifier::external_body]
    pub fn next_char_is(&self, c: char) -> (r: bool)
        ensures r == (self.cursor < self.buf.len() && self.buf@[self.cursor as int].kind == c)
    { unimplemented!() }

    #[verifier::external_body]
    pub fn current_span(&self) -> Span { unimplemented!() }

    #[verifier::external_body]
    pub fn prev_span(&self) -> Span { unimplemented!() }

    #[verifier::external_body]
    pub fn span_from(&self, start: usize) -> Span { unimplemented!() }

    #[verifier::external_body]
    pub fn cursor(&self) -> (r: usize)
        ensures r == self.cursor
    { unimplemented!() }

    #[verifier::external_body]
    pub fn set_cursor(&mut self, cursor: usize)
        ensures final(self).buf == old(self).buf, final(self).cursor == cursor
    { unimplemented!() }

    #[verifier::external_body]
    pub fn raw_text(&self, start: usize) -> (r: String)
        requires start <= self.cursor, self.cursor <= self.buf.len()
    { unimplemented!() }

    #[verifier::external_body]
    pub fn next(&mut self) -> (r: Option<Token>)
        ensures
            final(self).buf == old(self).buf,
            old(self).cursor < old(self).buf.len() ==> r == Some(old(self).buf@[old(self).cursor as int]) && final(self).cursor == old(self).cursor + 1,
            old(self).cursor >= old(self).buf.len() ==> r is None && final(self).cursor == old(self).cursor,
    { unimplemented!() }
}

// ---- character predicates from utils/chars.rs: uninterpreted except for the
// ---- range facts the scanners' arithmetic needs (discharged by Kani over all
// ---- `char` values: obligations C01/K/chars_*).
#[verifier::external_body]
pub fn is_name(c: char) -> bool { unimplemented!() }

#[verifier::external_body]
pub fn is_name_start(c: char) -> bool { unimplemented!() }

#[verifier::external_body]
pub fn as_hex(c: char) -> (r: u32)
    requires spec_is_hexdigit(c)
    ensures r < 16
{ unimplemented!() }

#[verifier::external_body]
pub fn hex_char_for(number: u32) -> char
    requires number < 0x10
{ unimplemented!() }

#[verifier::external_body]
pub fn opposite_bracket(b: char) -> char { unimplemented!() }

// ---- std functions used by the extracted text: assumed specifications (uninterpreted
// ---- unless a range fact is needed).  `char::from_u32`'s contract is discharged by Kani
// ---- over all u32 (C01/K/std_char_from_u32).
pub uninterp spec fn spec_is_hexdigit(c: char) -> bool;
pub assume_specification[ char::is_ascii_hexdigit ](c: &char) -> (r: bool)
    ensures r == spec_is_hexdigit(*c);
pub open spec fn spec_is_digit(c: char) -> bool { '0' <= c && c <= '9' }
pub assume_specification[ char::is_ascii_digit ](c: &char) -> (r: bool)
    ensures r == spec_is_digit(*c);
pub assume_specification[ char::is_ascii_whitespace ](c: &char) -> (r: bool);
pub assume_specification[ char::is_alphabetic ](c: char) -> (r: bool);
pub assume_specification[ char::to_ascii_lowercase ](c: &char) -> (r: char);
pub assume_specification[ core::char::from_u32 ](i: u32) -> (r: Option<char>)
    ensures (r is Some) == (i < 0xD800 || (0xE000 <= i && i <= 0x10FFFF)), r is Some ==> r->0 as u32 == i;
pub assume_specification[ char::from_u32 ](i: u32) -> (r: Option<char>)
    ensures (r is Some) == (i < 0xD800 || (0xE000 <= i && i <= 0x10FFFF)), r is Some ==> r->0 as u32 == i;
pub assume_specification[ String::with_capacity ](n: usize) -> (r: String);

// R9: `opt.map_or(false, |tok| tok.kind.is_ascii_whitespace())` written as a method
// (Verus has no specification for Option::map_or with a closure).
pub trait OptTokExt { fn is_some_and_ascii_whitespace(self) -> bool; }
impl OptTokExt for Option<Token> {
    #[verifier::external_body]
    fn is_some_and_ascii_whitespace(self) -> bool { unimplemented!() }
}

// R32: `assert!` / `assert_eq!` / `assert_ne!` (always-on run-time assertions: a panic when false)
// are written as calls of this function; its precondition is the asserted condition
#[verifier::external_body]
pub fn runtime_assert(b: bool)
    requires b
{ unimplemented!() }

pub struct P { pub toks: Lexer }
