// statements for the at-rule / style-rule slice: the variants its text builds, with the fields of the
// real structs (needs `Identifier`, `ArgumentDeclaration`, `ArgumentInvocation`, `AstSupportsCondition`
// from prelude_astexpr_args.rs); every other variant of the real `AstStmt` is dropped
pub struct AstVariableDecl {
    pub namespace: Option<Spanned<Identifier>>,
    pub name: Identifier,
    pub value: AstExpr,
    pub is_guarded: bool,
    pub is_global: bool,
    pub span: Span,
}
pub struct AstRuleSet { pub selector: Interpolation, pub body: Vec<AstStmt>, pub selector_span: Span, pub span: Span }
pub struct AstAtRootRule { pub body: Vec<AstStmt>, pub query: Option<Spanned<Interpolation>>, pub span: Span }
pub struct AstContentRule { pub args: ArgumentInvocation }
pub struct AstDebugRule { pub value: AstExpr, pub span: Span }
pub struct AstWarn { pub value: AstExpr, pub span: Span }
pub struct AstErrorRule { pub value: AstExpr, pub span: Span }
pub struct AstReturn { pub val: AstExpr, pub span: Span }
pub struct AstExtendRule { pub value: Interpolation, pub is_optional: bool, pub span: Span }
pub struct AstMedia { pub query: Interpolation, pub query_span: Span, pub body: Vec<AstStmt>, pub span: Span }
pub struct AstSupportsRule { pub condition: AstSupportsCondition, pub body: Vec<AstStmt>, pub span: Span }
pub struct AstUnknownAtRule { pub name: Interpolation, pub value: Option<Interpolation>, pub body: Option<Vec<AstStmt>>, pub span: Span }
pub struct AstMixin { pub name: Identifier, pub args: ArgumentDeclaration, pub body: Vec<AstStmt>, pub has_content: bool }
pub struct AstContentBlock { pub args: ArgumentDeclaration, pub body: Vec<AstStmt> }
pub struct AstInclude { pub namespace: Option<Spanned<Identifier>>, pub name: Spanned<Identifier>, pub args: ArgumentInvocation, pub content: Option<AstContentBlock>, pub span: Span }
pub struct AstStyle { pub name: Interpolation, pub value: Option<Spanned<AstExpr>>, pub body: Vec<AstStmt>, pub span: Span }
pub struct AstFunctionDecl { pub name: Spanned<Identifier>, pub arguments: ArgumentDeclaration, pub body: Vec<AstStmt> }
pub enum AstStmt {
    SilentComment(AstSilentComment),
    LoudComment(AstLoudComment),
    ImportRule(AstImportRule),
    VariableDecl(AstVariableDecl),
    RuleSet(AstRuleSet),
    AtRootRule(AstAtRootRule),
    ContentRule(AstContentRule),
    Debug(AstDebugRule),
    Warn(AstWarn),
    ErrorRule(AstErrorRule),
    Return(AstReturn),
    Extend(AstExtendRule),
    Media(AstMedia),
    Supports(AstSupportsRule),
    UnknownAtRule(AstUnknownAtRule),
    Mixin(AstMixin),
    Include(AstInclude),
    FunctionDecl(AstFunctionDecl),
    Style(AstStyle),
}
pub enum VariableDeclOrInterpolation { VariableDecl(AstVariableDecl), Interpolation(Interpolation) }
pub enum DeclarationOrBuffer { Stmt(AstStmt), Buffer(Interpolation) }
impl ArgumentInvocation {
    #[verifier::external_body]
    pub fn empty(span: Span) -> ArgumentInvocation { unimplemented!() }
}
impl ArgumentDeclaration {
    #[verifier::external_body]
    pub fn empty() -> ArgumentDeclaration { unimplemented!() }
}
