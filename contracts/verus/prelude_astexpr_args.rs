// expressions in the argument-list slice: the variants the real text constructs or matches on
// are kept, every other variant of the real `AstExpr` is folded into `Other`
// (no cursor fact depends on them)
use std::sync::Arc;
#[derive(Clone, Copy, PartialEq, Eq)]
pub struct Identifier { pub id: u32 }
impl From<String> for Identifier {
    #[verifier::external_body]
    fn from(s: String) -> Identifier { unimplemented!() }
}
pub enum AstExpr {
    String(StringExpr, Span),
    Variable { name: Spanned<Identifier>, namespace: Option<Spanned<Identifier>> },
    Supports(Arc<AstSupportsCondition>),
    InterpolatedFunction(Arc<InterpolatedFunction>),
    Other,
}
// the one variant the import slice tests for is kept
pub enum AstSupportsCondition { Declaration { name: Box<AstExpr>, value: Box<AstExpr> }, Other }
pub struct InterpolatedFunction { pub name: Interpolation, pub arguments: ArgumentInvocation, pub span: Span }
impl AstExpr {
    #[verifier::external_body]
    pub fn span(self, span: Span) -> Spanned<AstExpr> { unimplemented!() }
}
// std collections the text only inserts into / queries: opaque declared stand-ins
// (their contents never influence the cursor facts proved here, only which branch is taken)
pub struct HashSet<T> { pub x: Vec<T> }
impl<T> HashSet<T> {
    #[verifier::external_body]
    pub fn new() -> HashSet<T> { unimplemented!() }
    #[verifier::external_body]
    pub fn insert(&mut self, t: T) -> bool { unimplemented!() }
    #[verifier::external_body]
    pub fn contains(&self, t: &T) -> bool { unimplemented!() }
}
pub struct BTreeMap<K, V> { pub k: Vec<K>, pub v: Vec<V> }
impl<K, V> BTreeMap<K, V> {
    #[verifier::external_body]
    pub fn new() -> BTreeMap<K, V> { unimplemented!() }
    #[verifier::external_body]
    pub fn insert(&mut self, k: K, v: V) -> Option<V> { unimplemented!() }
    #[verifier::external_body]
    pub fn contains_key(&self, k: &K) -> bool { unimplemented!() }
    #[verifier::external_body]
    pub fn is_empty(&self) -> bool { unimplemented!() }
}
pub struct Argument { pub name: Identifier, pub default: Option<AstExpr> }
pub struct ArgumentDeclaration { pub args: Vec<Argument>, pub rest: Option<Identifier> }
pub struct ArgumentInvocation {
    pub positional: Vec<AstExpr>,
    pub named: BTreeMap<Identifier, AstExpr>,
    pub rest: Option<AstExpr>,
    pub keyword_rest: Option<AstExpr>,
    pub span: Span,
}
pub struct ConfiguredVariable { pub name: Spanned<Identifier>, pub expr: Spanned<AstExpr>, pub is_guarded: bool }
