// Declared environment of the selector parser slice (selector/parse.rs). The selector AST is cut
// down to the constructors the parser's text uses; payloads carry no cursor facts.  `Box<str>`
// payloads of the real AST are kept as `String` (rule R35: `.into_boxed_str()` dropped).
// the parser compares with `==` (derived PartialEq in the real code)
#[derive(PartialEq, Eq, Structural)]
pub enum DevouredWhitespace { Whitespace, Newline, None }
pub enum Combinator { NextSibling, Child, FollowingSibling }
pub enum AttributeOp { Any, Equals, Include, Dash, Prefix, Suffix, Contains }
pub struct Attribute { pub attr: QualifiedName, pub value: String, pub modifier: Option<char>, pub op: AttributeOp, pub span: Span }
pub enum Namespace { Empty, Asterisk, Other(String), None }
pub struct QualifiedName { pub ident: String, pub namespace: Namespace }
pub struct Pseudo {
    pub name: String, pub is_class: bool, pub is_syntactic_class: bool,
    pub argument: Option<String>, pub selector: Option<Box<SelectorList>>, pub span: Span,
}
pub enum SimpleSelector {
    Id(String), Class(String), Attribute(Box<Attribute>), Placeholder(String), Universal(Namespace),
    Pseudo(Pseudo), Type(QualifiedName), Parent(Option<String>),
}
pub struct CompoundSelector { pub components: Vec<SimpleSelector> }
pub enum ComplexSelectorComponent { Combinator(Combinator), Compound(CompoundSelector) }
pub struct ComplexSelector { pub components: Vec<ComplexSelectorComponent>, pub line_break: bool }
impl ComplexSelector {
    #[verifier::external_body]
    pub fn new(components: Vec<ComplexSelectorComponent>, line_break: bool) -> ComplexSelector { unimplemented!() }
}
pub struct SelectorList { pub components: Vec<ComplexSelector>, pub span: Span }

// the attribute parser's parameter type is spelled `SelectorParser` in selector/attribute.rs
pub type SelectorParser = SP;
pub struct SP { pub allows_parent: bool, pub allows_placeholder: bool, pub toks: Lexer, pub span: Span }

// R30-style uninterpreted text tests: membership of the unvendored pseudo name in the two
// constant tables, and the fake-pseudo-element test
#[verifier::external_body]
pub fn is_selector_pseudo_class(unvendored: &str) -> bool { unimplemented!() }
#[verifier::external_body]
pub fn is_selector_pseudo_element(unvendored: &str) -> bool { unimplemented!() }
#[verifier::external_body]
pub fn is_fake_pseudo_element(name: &str) -> bool { unimplemented!() }
#[verifier::external_body]
pub fn unvendor(name: &str) -> &str { unimplemented!() }
pub assume_specification[ str::trim_end ](s: &str) -> (r: &str);
