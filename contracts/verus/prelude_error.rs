// Declared environment of the error-conversion slice (error.rs, lib.rs). The two enums
// are the real ones (a variant added or removed in error.rs makes the extracted
// `kind()`/`raw()` fail to type-check: exit 2); codemap types are opaque.
#[derive(Copy, Clone, Debug)]
pub struct Span { pub lo: u64, pub hi: u64 }
#[derive(Debug)]
pub struct SpanLoc { }
pub struct CodeMap { }
impl CodeMap {
    #[verifier::external_body]
    pub fn look_up_span(&self, span: Span) -> SpanLoc { unimplemented!() }
}
#[derive(Debug)]
pub struct IoErrorOpaque { }

#[derive(Debug)]
pub enum SassErrorKind {
    Raw(String, Span),
    ParseError { message: String, loc: SpanLoc, unicode: bool },
    IoError(std::sync::Arc<IoErrorOpaque>),
    FromUtf8Error(String),
}
pub enum PublicSassErrorKind {
    ParseError { message: String, loc: SpanLoc, unicode: bool },
    IoError(std::sync::Arc<IoErrorOpaque>),
    FromUtf8Error(String),
}
pub struct SassError { pub kind: SassErrorKind }
pub type Error = SassError;

impl SassError {
    pub open spec fn is_raw_spec(&self) -> bool { self.kind is Raw }
}
