// expressions in the @supports slice: the one variant the real text matches on is kept,
// every other variant of the real `AstExpr` is folded into `Other` (no cursor fact depends on them)
pub enum AstExpr { String(StringExpr, Span), Other }
