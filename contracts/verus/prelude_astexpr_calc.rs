// expressions in the calculation slice of parse/value.rs: the variants its text constructs are
// kept (payloads as in the real type), every other variant of the real `AstExpr` is folded into `Other`
use std::sync::Arc;
#[derive(Clone, Copy, PartialEq, Eq)]
pub struct Identifier { pub id: u32 }
impl From<String> for Identifier {
    #[verifier::external_body]
    fn from(s: String) -> Identifier { unimplemented!() }
}
impl From<&String> for Identifier {
    #[verifier::external_body]
    fn from(s: &String) -> Identifier { unimplemented!() }
}
pub struct ArgumentInvocation { pub span: Span }
pub struct Ternary(pub ArgumentInvocation);
pub struct FunctionCallExpr { pub namespace: Option<Spanned<Identifier>>, pub name: Identifier, pub arguments: Arc<ArgumentInvocation>, pub span: Span }
pub enum BinaryOp { Plus, Minus, Mul, Div }
pub struct BinaryOpExpr { pub lhs: AstExpr, pub op: BinaryOp, pub rhs: AstExpr, pub allows_slash: bool, pub span: Span }
pub enum CalculationName { Calc, Min, Max, Clamp }
pub struct Number { pub v: f64 }
impl From<f64> for Number {
    #[verifier::external_body]
    fn from(v: f64) -> Number { unimplemented!() }
}
pub enum Unit { Percent, None, Other }
impl From<String> for Unit {
    #[verifier::external_body]
    fn from(s: String) -> Unit { unimplemented!() }
}
pub enum ListSeparator { Space, Comma, Slash, Undecided }
pub enum Brackets { None, Bracketed }
pub struct ListExpr { pub elems: Vec<Spanned<AstExpr>>, pub separator: ListSeparator, pub brackets: Brackets }
pub struct AstSassMap(pub Vec<(Spanned<AstExpr>, AstExpr)>);
pub enum AstExpr {
    String(StringExpr, Span),
    List(ListExpr),
    Map(AstSassMap),
    Paren(Arc<AstExpr>),
    If(Arc<Ternary>),
    FunctionCall(FunctionCallExpr),
    BinaryOp(Arc<BinaryOpExpr>),
    Calculation { name: CalculationName, args: Vec<AstExpr> },
    Variable { name: Spanned<Identifier>, namespace: Option<Spanned<Identifier>> },
    Number { n: Number, unit: Unit },
    Other,
}
// `AstExpr::span` is not declared here: unit value_calc proves the real one, value_parens declares it
