// Declared environment of the stylesheet-scanner slice. AST payload types carry no
// facts the cursor arguments need: `Interpolation` keeps its real field (the real
// text pushes into it) but its methods are external_body; expressions are opaque.
pub struct Spanned<T> { pub node: T, pub span: Span }
pub enum InterpolationPart { Expr(Spanned<AstExpr>), String(String) }
pub struct Interpolation { pub contents: Vec<InterpolationPart> }
impl Interpolation {
    #[verifier::external_body]
    pub fn new() -> Interpolation { unimplemented!() }
    #[verifier::external_body]
    pub fn new_plain(s: String) -> Interpolation { unimplemented!() }
    #[verifier::external_body]
    pub fn add_string(&mut self, s: String) { unimplemented!() }
    #[verifier::external_body]
    pub fn add_char(&mut self, c: char) { unimplemented!() }
    #[verifier::external_body]
    pub fn add_interpolation(&mut self, other: Interpolation) { unimplemented!() }
    // R13: `buffer.trailing_string().trim_end().ends_with(..)` - a test on the buffer's text,
    // which this slice does not model: uninterpreted
    #[verifier::external_body]
    pub fn trailing_ends_with_comma(&self) -> bool { unimplemented!() }
    #[verifier::external_body]
    pub fn trailing_ends_with_comment_close(&self) -> bool { unimplemented!() }
}
#[derive(PartialEq, Eq, Clone, Copy)]
pub enum QuoteKind { Quoted, None }
pub struct StringExpr(pub Interpolation, pub QuoteKind);
impl StringExpr {
    #[verifier::external_body]
    pub fn as_interpolation(self, is_static: bool) -> Interpolation { unimplemented!() }
}
pub struct AstSilentComment { pub text: String, pub span: Span }
pub struct AstLoudComment { pub text: Interpolation, pub span: Span }
pub struct AstPlainCssImport { pub url: Interpolation, pub modifiers: Option<Interpolation>, pub span: Span }
pub struct AstSassImport { pub url: String, pub span: Span }
pub enum AstImport { Plain(AstPlainCssImport), Sass(AstSassImport) }
pub struct AstImportRule { pub imports: Vec<AstImport> }
