// statements: only the variants the scanner/import slices build
pub enum AstStmt { SilentComment(AstSilentComment), ImportRule(AstImportRule) }
