// Declared environment of the lexer slice (lexer.rs itself is the code under contract here).
// `codemap::Span` is an external dependency: its contracts below are assumed from its source
// (codemap 0.1.3: `subspan` asserts `end >= begin` and `self.low + end <= self.high`;
// positions are u32 in the crate, modelled as u64 so `low + end` cannot wrap here - the
// real `Pos + u64` truncates, which the in-range precondition excludes).
global size_of usize == 8;

#[derive(Copy, Clone)]
pub struct Span { pub lo: u64, pub hi: u64 }
impl Span {
    pub open spec fn span_wf(&self) -> bool { self.lo <= self.hi && self.hi <= 0xffff_ffff }
    pub open spec fn inside(&self, outer: Span) -> bool { outer.lo <= self.lo && self.hi <= outer.hi }
    #[verifier::external_body]
    pub fn subspan(&self, begin: u64, end: u64) -> (r: Span)
        requires end >= begin, self.lo + end <= self.hi
        ensures r.lo == self.lo + begin, r.hi == self.lo + end
    { unimplemented!() }
    #[verifier::external_body]
    pub fn merge(&self, other: Span) -> (r: Span)
        ensures r.lo == (if self.lo <= other.lo { self.lo } else { other.lo }), r.hi == (if self.hi >= other.hi { self.hi } else { other.hi })
    { unimplemented!() }
}

#[derive(Copy, Clone, Debug, Eq, PartialEq)]
pub struct Token { pub kind: char, pub pos: u32 }

/// UTF-8 length of a scalar value (vstd's own specification of `char::len_utf8` is this formula)
pub open spec fn spec_len_utf8(c: char) -> nat {
    if (c as u32) < 0x80 { 1 } else if (c as u32) < 0x800 { 2 } else if (c as u32) < 0x10000 { 3 } else { 4 }
}

pub struct Lexer {
    pub buf: Vec<Token>,
    pub entire_span: Span,
    pub cursor: usize,
    pub is_expanded: bool,
}

impl Lexer {
    /// data invariant established by new_from_file / new_from_string (Kani: C19/K/lexer_new_establishes_invariant_*):
    /// unless expanded, every token lies inside the span
    pub open spec fn span_ok(&self) -> bool {
        &&& self.entire_span.span_wf()
        &&& (self.is_expanded || forall|i: int| 0 <= i < self.buf.len() ==> (#[trigger] self.buf@[i]).pos as int + spec_len_utf8(self.buf@[i].kind) <= self.entire_span.hi - self.entire_span.lo)
    }
}
