// expressions are opaque in the statement-level slices
pub struct AstExpr { }
