// Declared environment of the hex-colour literal slice: `Number` and `Color` are
// opaque; the two constructors the text calls are external_body and record their
// arguments through uninterpreted accessors, so the postcondition can speak about
// the channel values that reach `Color::new_rgba`.
// opaque but not one-value types: distinct numbers and colours must be distinguishable in the contracts
pub struct Number { pub tag: u64 }
pub struct Color { pub tag: u64 }
pub enum ColorFormat { Literal(String) }
pub uninterp spec fn num_of_u32(n: u32) -> Number;
pub uninterp spec fn color_red(c: Color) -> Number;
pub uninterp spec fn color_green(c: Color) -> Number;
pub uninterp spec fn color_blue(c: Color) -> Number;
impl From<u32> for Number {
    #[verifier::external_body]
    fn from(n: u32) -> (r: Number)
        ensures r == num_of_u32(n)
    { unimplemented!() }
}
impl Color {
    #[verifier::external_body]
    pub fn new_rgba(red: Number, green: Number, blue: Number, alpha: Number, format: ColorFormat) -> (c: Color)
        ensures color_red(c) == red, color_green(c) == green, color_blue(c) == blue
    { unimplemented!() }
}
// alpha is a double: Verus' f64 support does not cover `as f64` / division, so the alpha
// computation is wrapped (R17) and left uninterpreted
#[verifier::external_body]
pub fn alpha_of_byte(b: u32) -> Number { unimplemented!() }
#[verifier::external_body]
pub fn alpha_one() -> Number { unimplemented!() }
