// Declared environment of the value-scanner slice (parse/value.rs): expression nodes.
pub enum AstExpr { String(StringExpr, Span) }
impl AstExpr {
    #[verifier::external_body]
    pub fn span(self, span: Span) -> Spanned<AstExpr> { unimplemented!() }
}
