// Declared environment of the media-query parser slice: the AST type is opaque
// (constructors are external_body; their results carry no facts the termination
// argument needs), and the std string functions the text uses get assumed specs.
pub struct MediaQuery { }
impl MediaQuery {
    #[verifier::external_body]
    pub fn condition(conditions: Vec<String>, conjunction: bool) -> MediaQuery { unimplemented!() }
    #[verifier::external_body]
    pub fn media_type(media_type: Option<String>, modifier: Option<String>, conditions: Option<Vec<String>>) -> MediaQuery { unimplemented!() }
}
pub assume_specification[ str::to_ascii_lowercase ](s: &str) -> (r: String);
