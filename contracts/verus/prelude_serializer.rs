// Declared environment of the calculation printer slice (serializer.rs). Everything here is an
// ASSUMPTION of the unit: the number/calculation leaf printers append *some* text (uninterpreted)
// or fail; `BinaryOp` is the real enum (a changed variant list makes the extracted `precedence`
// fail to type-check: exit 2); `CalculationArg` is the real enum with its two opaque payload types.
global size_of usize == 8;

pub struct SassError { }
pub type SassResult<T> = Result<T, Box<SassError>>;

// the real enum derives PartialEq/Eq: `==` is structural equality (Verus: Structural)
#[derive(Clone, Copy, PartialEq, Eq, Structural)]
pub enum BinaryOp { SingleEq, Equal, NotEqual, GreaterThan, GreaterThanEqual, LessThan, LessThanEqual, Plus, Minus, Mul, Div, Rem, And, Or }

pub struct SassNumber { pub tag: u64 }
pub struct SassCalculation { pub tag: u64 }
pub enum CalculationArg {
    Number(SassNumber),
    Calculation(SassCalculation),
    String(String),
    Operation { lhs: Box<CalculationArg>, op: BinaryOp, rhs: Box<CalculationArg> },
    Interpolation(String),
}

pub struct Options { }
impl Options {
    #[verifier::external_body]
    pub fn is_compressed(&self) -> bool { unimplemented!() }
}

// uninterpreted texts of the leaves and of an operator
pub uninterp spec fn num_text(n: SassNumber) -> Seq<u8>;
pub uninterp spec fn calc_text(c: SassCalculation) -> Seq<u8>;
pub uninterp spec fn string_bytes(s: String) -> Seq<u8>;
pub uninterp spec fn op_text(op: BinaryOp) -> Seq<u8>;

pub struct Serializer<'a> { pub options: &'a Options, pub buffer: Vec<u8> }

impl<'a> Serializer<'a> {
    #[verifier::external_body]
    pub fn visit_number(&mut self, number: &SassNumber) -> (r: SassResult<()>)
        ensures final(self).options == old(self).options, r is Ok ==> final(self).buffer@ == old(self).buffer@ + num_text(*number)
    { unimplemented!() }
    // mutually recursive with write_calculation_arg in the real code (a nested calc()/min()/.. call);
    // its own text is not modelled
    #[verifier::external_body]
    pub fn visit_calculation(&mut self, calculation: &SassCalculation) -> (r: SassResult<()>)
        ensures final(self).options == old(self).options, r is Ok ==> final(self).buffer@ == old(self).buffer@ + calc_text(*calculation)
    { unimplemented!() }
    // R34: `self.buffer.extend_from_slice(s.as_bytes())` and `...(op.to_string().as_bytes())`: appending
    // the bytes of a string / of an operator's Display text, written as methods over uninterpreted texts
    #[verifier::external_body]
    pub fn buffer_extend_string(&mut self, s: &String)
        ensures final(self).options == old(self).options, final(self).buffer@ == old(self).buffer@ + string_bytes(*s)
    { unimplemented!() }
    #[verifier::external_body]
    pub fn buffer_extend_op(&mut self, op: &BinaryOp)
        ensures final(self).options == old(self).options, final(self).buffer@ == old(self).buffer@ + op_text(*op)
    { unimplemented!() }
}

// ---- the specification, written from the property statement -------------------------------
pub open spec fn is_arith(op: BinaryOp) -> bool { op == BinaryOp::Plus || op == BinaryOp::Minus || op == BinaryOp::Mul || op == BinaryOp::Div }
/// CSS calc precedence: `*` and `/` bind tighter than `+` and `-`
pub open spec fn tight(op: BinaryOp) -> bool { op == BinaryOp::Mul || op == BinaryOp::Div }
/// `a outer (b right c)` has the same value as the left-associated reading `(a outer b) right c`
/// for all a, b, c: a+(b+c), a+(b-c), a*(b*c), a*(b/c)
pub open spec fn reassociates(outer: BinaryOp, right: BinaryOp) -> bool {
    (outer == BinaryOp::Plus && !tight(right)) || (outer == BinaryOp::Mul && tight(right))
}
/// parentheses around a right operand `b right c` of `outer` can be dropped exactly when the flat
/// text `a outer b right c` still means `a outer (b right c)`: either `right` binds tighter than
/// `outer`, or the two re-associate
pub open spec fn needs_paren_rhs(outer: BinaryOp, right: BinaryOp) -> bool {
    !((tight(right) && !tight(outer)) || reassociates(outer, right))
}
/// a left operand `a left b` of `outer` needs parentheses exactly when `left` binds looser
/// (equal precedence is what left associativity already means)
pub open spec fn needs_paren_lhs(left: BinaryOp, outer: BinaryOp) -> bool { !tight(left) && tight(outer) }

pub open spec fn spec_paren_left(lhs: CalculationArg, op: BinaryOp) -> bool {
    match lhs {
        CalculationArg::Interpolation(_) => true,
        CalculationArg::Operation { lhs: _, op: op2, rhs: _ } => needs_paren_lhs(op2, op),
        _ => false,
    }
}
pub open spec fn spec_paren_right(op: BinaryOp, rhs: CalculationArg) -> bool {
    match rhs {
        CalculationArg::Interpolation(_) => true,
        CalculationArg::Operation { lhs: _, op: op2, rhs: _ } => needs_paren_rhs(op, op2),
        _ => false,
    }
}
/// every operator in the tree is one of + - * /
pub open spec fn arith_tree(arg: CalculationArg) -> bool
    decreases arg
{
    match arg {
        CalculationArg::Operation { lhs, op, rhs } => is_arith(op) && arith_tree(*lhs) && arith_tree(*rhs),
        _ => true,
    }
}
/// The parenthesisation (`pl`, `pr`) and spacing (`sp`) decisions taken while printing one argument tree (ghost only).
pub enum Dec { Leaf, Node { pl: bool, pr: bool, sp: bool, l: Box<Dec>, r: Box<Dec> } }

/// the decisions are sound: at every operator node parentheses are present AT LEAST where the value
/// would otherwise change (superfluous parentheses keep the value and are allowed)
pub open spec fn sound_d(arg: CalculationArg, d: Dec) -> bool
    decreases arg
{
    match arg {
        CalculationArg::Operation { lhs, op, rhs } => match d {
            Dec::Node { pl, pr, sp, l, r } =>
                (spec_paren_left(*lhs, op) ==> pl) && (spec_paren_right(op, *rhs) ==> pr)
                // CSS requires white space around + and - inside calc(); around * and / it is optional
                && ((op == BinaryOp::Plus || op == BinaryOp::Minus) ==> sp)
                && sound_d(*lhs, *l) && sound_d(*rhs, *r),
            Dec::Leaf => false,
        },
        _ => true,
    }
}
/// the text appended to `acc` for `arg` under decisions `d`: leaves verbatim, operators infix.
/// Written in append order: `push` is one byte, 40 = '(' , 41 = ')' , 32 = ' '.
pub open spec fn ser_d(acc: Seq<u8>, arg: CalculationArg, d: Dec) -> Seq<u8>
    decreases arg
{
    match arg {
        CalculationArg::Number(n) => acc + num_text(n),
        CalculationArg::Calculation(c) => acc + calc_text(c),
        CalculationArg::String(s) => acc + string_bytes(s),
        CalculationArg::Interpolation(s) => acc + string_bytes(s),
        CalculationArg::Operation { lhs, op, rhs } => match d {
            Dec::Node { pl, pr, sp, l, r } => {
                let m1 = ser_d(if pl { acc.push(40u8) } else { acc }, *lhs, *l);
                let m2 = ser_d(after_op(m1, pl, pr, sp, op), *rhs, *r);
                if pr { m2.push(41u8) } else { m2 }
            }
            Dec::Leaf => acc,
        },
    }
}
/// the text between the two operands: optional `)`, optional space, the operator, optional space, optional `(`
pub open spec fn after_op(m1: Seq<u8>, pl: bool, pr: bool, sp: bool, op: BinaryOp) -> Seq<u8> {
    let a3 = if pl { m1.push(41u8) } else { m1 };
    let a4 = if sp { a3.push(32u8) } else { a3 };
    let a5 = a4 + op_text(op);
    let a6 = if sp { a5.push(32u8) } else { a5 };
    if pr { a6.push(40u8) } else { a6 }
}
/// `out` is a correct text for `arg` appended to `acc`
pub open spec fn ok_onto(acc: Seq<u8>, arg: CalculationArg, out: Seq<u8>) -> bool {
    exists|d: Dec| #[trigger] sound_d(arg, d) && out == ser_d(acc, arg, d)
}
