//@ target: crates/compiler/src/color/mod.rs
//@ module: verif_kani_c15
//@ props: C15 C09
//! Channel range invariants of the clamping constructors and accessors (C15 mech
//! 1), over ALL f64 inputs including NaN and infinities (loop-free: K-full).
use crate::value::verif_kani_support::{epsilon_const, inverse_epsilon_const};

fn in_range(x: f64, lo: f64, hi: f64) -> bool {
    lo <= x && x <= hi
}

fn check_color_invariant(c: &Color) {
    let (r, g, b) = (c.red().0, c.green().0, c.blue().0);
    assert!(in_range(r, 0.0, 255.0) && in_range(g, 0.0, 255.0) && in_range(b, 0.0, 255.0), "C15/K: red/green/blue in [0,255]");
    assert!(r == r.round() && g == g.round() && b == b.round(), "C15/K: red/green/blue are integer-rounded");
    assert!(in_range(c.alpha().0, 0.0, 1.0), "C15/K: alpha in [0,1]");
}

//@ ob: id=C15/K/from_rgba_ranges kind=K-full fns=Color::from_rgba,Color::from_rgba_fn,Color::red,Color::green,Color::blue,Color::alpha
//@ desc: for every four doubles (NaN and infinities included) both clamping constructors yield integer-rounded red/green/blue in [0,255] and alpha in [0,1]
#[kani::proof]
fn c15_from_rgba_ranges() {
    let (r, g, b, a): (f64, f64, f64, f64) = (kani::any(), kani::any(), kani::any(), kani::any());
    let c = if kani::any() {
        Color::from_rgba(Number(r), Number(g), Number(b), Number(a))
    } else {
        Color::from_rgba_fn(Number(r), Number(g), Number(b), Number(a))
    };
    check_color_invariant(&c);
    // in-range inputs are kept (no spurious clamping)
    if in_range(r, 0.0, 255.0) && in_range(a, 0.0, 1.0) {
        assert!(c.red().0 == r.round() && c.alpha().0 == a, "C15/K/from_rgba_ranges: in-range input preserved");
    }
    kani::cover!(r > 255.0);
    kani::cover!(a.is_nan());
}

//@ ob: id=C15/K/named_color_ranges kind=K-full fns=Color::new,Color::alpha
//@ desc: a color built from four bytes (named colors) has channels in [0,255] and alpha() in [0,1] for every byte value; alpha byte 255 is opaque, 0 transparent
#[kani::proof]
fn c15_named_color_ranges() {
    let (r, g, b, a): (u8, u8, u8, u8) = (kani::any(), kani::any(), kani::any(), kani::any());
    let c = Color::new(r, g, b, a, String::new());
    check_color_invariant(&c);
    assert!(c.red().0 == r as f64 && c.green().0 == g as f64 && c.blue().0 == b as f64, "C15/K/named_color_ranges: channels");
    if a == 255 {
        assert!(c.alpha().0 == 1.0, "C15/K/named_color_ranges: opaque");
    }
    if a == 0 {
        assert!(c.alpha().0 == 0.0, "C15/K/named_color_ranges: transparent");
    }
    kani::cover!(a == 128);
}

//@ ob: id=C15/K/opacity_functions_clamp kind=K-full fns=Color::with_alpha,Color::fade_in,Color::fade_out
//@ desc: change-alpha / opacify / transparentize keep every channel in range for every color produced by the clamping constructor and every amount (they clamp, never wrap)
#[kani::proof]
fn c15_opacity_functions_clamp() {
    let (r, g, b, a): (f64, f64, f64, f64) = (kani::any(), kani::any(), kani::any(), kani::any());
    let amount: f64 = kani::any();
    let c = Color::from_rgba(Number(r), Number(g), Number(b), Number(a));
    let which: u8 = kani::any();
    kani::assume(which < 3);
    let d = match which {
        0 => c.with_alpha(Number(amount)),
        1 => c.fade_in(Number(amount)),
        _ => c.fade_out(Number(amount)),
    };
    check_color_invariant(&d);
    assert!(d.red().0 == c.red().0 && d.green().0 == c.green().0 && d.blue().0 == c.blue().0, "C15/K/opacity_functions_clamp: rgb channels untouched");
    if which == 0 && in_range(amount, 0.0, 1.0) {
        assert!(d.alpha().0 == amount, "C15/K/opacity_functions_clamp: with_alpha sets alpha");
    }
    kani::cover!(which == 1 && amount > 1.0);
}

//@ ob: id=C15/K/whiteness_blackness_ranges kind=K-full fns=Color::whiteness,Color::blackness
//@ desc: whiteness and blackness of every constructor-produced color are in [0,1] and whiteness + blackness <= 1
#[kani::proof]
fn c15_whiteness_blackness_ranges() {
    let (r, g, b): (f64, f64, f64) = (kani::any(), kani::any(), kani::any());
    let c = Color::from_rgba(Number(r), Number(g), Number(b), Number(1.0));
    let w = c.whiteness().0;
    let k = c.blackness().0;
    assert!(in_range(w, 0.0, 1.0), "C15/K/whiteness_blackness_ranges: whiteness");
    assert!(in_range(k, 0.0, 1.0), "C15/K/whiteness_blackness_ranges: blackness");
    assert!(w <= 1.0 - k + 1e-15, "C15/K/whiteness_blackness_ranges: whiteness + blackness <= 1");
    kani::cover!(w > 0.0 && k > 0.0);
}

//@ ob: id=C15/K/invert_weight_zero_identity kind=K-full fns=Color::invert
//@ desc: invert with weight 0 returns the color unchanged (all channels and alpha), for every constructor-produced color
#[kani::proof]
#[kani::stub(crate::value::number::epsilon, epsilon_const)]
#[kani::stub(crate::value::number::inverse_epsilon, inverse_epsilon_const)]
fn c15_invert_weight_zero_identity() {
    let (r, g, b, a): (f64, f64, f64, f64) = (kani::any(), kani::any(), kani::any(), kani::any());
    let c = Color::from_rgba(Number(r), Number(g), Number(b), Number(a));
    let d = c.invert(Number(0.0));
    assert!(d.red().0 == c.red().0 && d.green().0 == c.green().0 && d.blue().0 == c.blue().0 && d.alpha().0 == c.alpha().0, "C15/K/invert_weight_zero_identity");
    kani::cover!(r > 0.0 && r < 255.0);
}

//@ ob: id=C15/K/eq_across_spellings kind=K-full fns=Color::eq,Rgb::eq,Color::new,Color::from_rgba also=C09
//@ desc: a color written as four bytes (named color / hex spelling, alpha 255) equals the same color built by rgba() from doubles, in both argument orders, for every byte triple; equality is reflexive on constructor-produced colors; colors differing in one channel by 1 are unequal
#[kani::proof]
#[kani::stub(crate::value::number::epsilon, epsilon_const)]
#[kani::stub(crate::value::number::inverse_epsilon, inverse_epsilon_const)]
fn c15_eq_across_spellings() {
    let (r, g, b): (u8, u8, u8) = (kani::any(), kani::any(), kani::any());
    let named = Color::new(r, g, b, 255, String::new());
    let func = Color::from_rgba_fn(Number(r as f64), Number(g as f64), Number(b as f64), Number(1.0));
    assert!(named == func && func == named, "C15/K/eq_across_spellings: byte and rgba() spellings are equal");
    assert!(func == func.clone() && named == named.clone(), "C15/K/eq_across_spellings: reflexive");
    if r < 255 {
        let other = Color::from_rgba_fn(Number(r as f64 + 1.0), Number(g as f64), Number(b as f64), Number(1.0));
        assert!(!(other == func) && !(func == other), "C15/K/eq_across_spellings: different red channel");
    }
    let translucent = Color::from_rgba_fn(Number(r as f64), Number(g as f64), Number(b as f64), Number(0.5));
    assert!(!(translucent == func) && !(func == translucent), "C15/K/eq_across_spellings: different alpha");
    kani::cover!(r == 255 && g == 0);
}

