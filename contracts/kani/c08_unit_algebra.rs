//@ target: crates/compiler/src/unit/mod.rs
//@ module: verif_kani_c08_algebra
//@ props: C08
//! Building blocks of unit multiplication/cancellation (C08 mech 4): `Unit::new`,
//! `is_complex`, `are_any_convertible`, on concrete
//! small unit vectors (straight-line; `multiply_units` itself does not finish in CBMC).
use std::mem::ManuallyDrop;

fn same(a: &Vec<Unit>, b: &[Unit]) -> bool {
    if a.len() != b.len() {
        return false;
    }
    let mut i = 0;
    let mut ok = true;
    while i < b.len() {
        ok = ok && matches!((&a[i], &b[i]), (Unit::Px, Unit::Px) | (Unit::S, Unit::S) | (Unit::Em, Unit::Em) | (Unit::In, Unit::In));
        i += 1;
    }
    ok
}

//@ ob: id=C08/K/unit_new_normal_form kind=K-bounded fns=Unit::new,Unit::is_complex bound="numerators/denominators of length <= 2 over {px, s, em}"
//@ desc: Unit::new normalises: no factors is unitless, one numerator and no denominator is that simple unit, anything else is a complex unit holding exactly the given numerators and denominators in order; is_complex is true exactly for the last case (values are never dropped: dropping an Arc<ComplexUnit> makes CBMC explore the recursive drop glue, DESIGN E-K15, which is also why invert/numer_and_denom are not covered)
#[kani::proof]
#[kani::unwind(4)]
fn c08_unit_new_normal_form() {
    let a = ManuallyDrop::new(Unit::new(vec![], vec![]));
    assert!(matches!(&*a, Unit::None) && !a.is_complex(), "C08/K/unit_new_normal_form: no factors");
    let b = ManuallyDrop::new(Unit::new(vec![Unit::Px], vec![]));
    assert!(matches!(&*b, Unit::Px) && !b.is_complex(), "C08/K/unit_new_normal_form: single numerator");
    let c = ManuallyDrop::new(Unit::new(vec![Unit::Px], vec![Unit::S]));
    assert!(c.is_complex(), "C08/K/unit_new_normal_form: px/s is complex");
    match &*c {
        Unit::Complex(cu) => assert!(same(&cu.numer, &[Unit::Px]) && same(&cu.denom, &[Unit::S]), "C08/K/unit_new_normal_form: px/s factors"),
        _ => assert!(false, "C08/K/unit_new_normal_form: px/s must be a complex unit"),
    }
    let e = ManuallyDrop::new(Unit::new(vec![Unit::Px, Unit::Em], vec![]));
    assert!(e.is_complex(), "C08/K/unit_new_normal_form: px*em is complex");
    match &*e {
        Unit::Complex(cu) => assert!(same(&cu.numer, &[Unit::Px, Unit::Em]) && cu.denom.is_empty(), "C08/K/unit_new_normal_form: px*em factors in order"),
        _ => assert!(false, "C08/K/unit_new_normal_form: px*em must be a complex unit"),
    }
    let f = ManuallyDrop::new(Unit::new(vec![], vec![Unit::S]));
    assert!(f.is_complex(), "C08/K/unit_new_normal_form: 1/s is complex");
    kani::cover!(true);
}

//@ ob: id=C08/K/are_any_convertible kind=K-bounded fns=are_any_convertible,Unit::comparable bound="5 concrete slices"
//@ desc: two factor lists can cancel exactly when some pair of their units is convertible (in with px, s with ms; never em with px, never with an empty list)
#[kani::proof]
#[kani::unwind(4)]
fn c08_are_any_convertible() {
    assert!(are_any_convertible(&[Unit::In, Unit::Em], &[Unit::Px]), "C08/K/are_any_convertible: in~px");
    assert!(!are_any_convertible(&[Unit::Em], &[Unit::Px]), "C08/K/are_any_convertible: em!~px");
    assert!(are_any_convertible(&[Unit::Em, Unit::S], &[Unit::Deg, Unit::Ms]), "C08/K/are_any_convertible: s~ms");
    assert!(!are_any_convertible(&[], &[Unit::Px]), "C08/K/are_any_convertible: empty left");
    assert!(!are_any_convertible(&[Unit::Px], &[]), "C08/K/are_any_convertible: empty right");
    kani::cover!(true);
}
