//@ target: crates/compiler/src/value/calculation.rs
//@ module: verif_kani_c16
//@ props: C16 C01
//! clamp() reduction (C16 mech 2; min()/max() take a `Vec<CalculationArg>` whose
//! recursive drop glue CBMC cannot finish, DESIGN E-K15) and the call sites of
//! `Number::convert` in calculation.rs (C01 mech 3). Units symbolic over the simple
//! domain, magnitudes concrete. `verify_compatible_numbers` reaches
//! KNOWN_COMPATIBILITIES (a Lazy<HashSet>, Kani ICE) and only decides Ok/Err of the
//! unsimplified path, so it is replaced by a nondeterministic Ok/Err.
use crate::lexer::verif_kani_support::span_of;
use crate::options::verif_kani_support::options_for_kani;
use crate::unit::verif_kani_support::{any_simple_unit, unit_of, IDX_NONE, N_SIMPLE};
use crate::value::verif_kani_support::{convert_contract, convert_factor_spec, epsilon_const, inverse_epsilon_const};
use crate::value::Number;

pub(crate) fn format_stub(_args: std::fmt::Arguments<'_>) -> String {
    String::new()
}

pub(crate) fn vcn_stub(_args: &[CalculationArg], _options: &Options, _span: Span) -> SassResult<()> {
    // Always Ok: the contracts below impose nothing on an Err result, and an Err
    // returns from the caller at once, so the Ok continuation is the only one
    // carrying obligations (a nondeterministic Ok/Err made CBMC merge symbolic
    // `Vec<CalculationArg>` states and not finish, DESIGN E-K14).
    Ok(())
}

/// field-wise comparison with an expected number argument (the derived `PartialEq`
/// of `CalculationArg` is recursive and needlessly expensive for CBMC)
fn is_number_arg(x: &CalculationArg, n: f64, u: &Unit) -> bool {
    match x {
        CalculationArg::Number(sn) => sn.num.0 == n && sn.unit == *u && sn.as_slash.is_none(),
        _ => false,
    }
}

fn arg(n: f64, u: &Unit) -> CalculationArg {
    CalculationArg::Number(SassNumber { num: Number(n), unit: u.clone(), as_slash: None })
}

/// value of `n u` expressed in unit `to` (spec side; requires a factor)
fn in_unit(n: f64, u: &Unit, to: &Unit) -> f64 {
    n * convert_factor_spec(u, to).unwrap()
}

// Representative units (straight-line calls, no loops: with loops the harness
// needs a larger unwind bound and CBMC then explores the recursive drop glue of
// `CalculationArg`/`Unit` to that depth, DESIGN E-K15): unitless, two convertible
// lengths (px, in), a relative length (em) and an angle (deg).

pub(crate) fn check_clamp(a: &Unit, b: &Unit, c: &Unit, lo: f64, v: f64, hi: f64) {
    let opts = options_for_kani();
    let r = SassCalculation::clamp(arg(lo, a), Some(arg(v, b)), Some(arg(hi, c)), &opts, span_of(0, 1));
    let all_convertible = a.comparable(b) && a.comparable(c) && b.comparable(c);
    match &r {
        Ok(Value::Dimension(out)) => {
            assert!(all_convertible, "C16/K/clamp: reduces to a number only for mutually convertible units");
            let is_min = out.unit == *a && out.num.0 == lo;
            let is_val = out.unit == *b && out.num.0 == v;
            let is_max = out.unit == *c && out.num.0 == hi;
            assert!(is_min || is_val || is_max, "C16/K/clamp: result is one of the arguments");
            // ... and, for a well-formed range (min <= max), it is max(min, min(value, max)):
            // between min and max after conversion into the value's unit
            // (inverted ranges: obligation C16/K/clamp_inverted_range)
            let x = in_unit(out.num.0, &out.unit, b);
            if in_unit(lo, a, b) <= in_unit(hi, c, b) {
                assert!(in_unit(lo, a, b) <= x, "C16/K/clamp: result below min");
                assert!(x <= in_unit(hi, c, b), "C16/K/clamp: result above max");
                assert!(!is_val || (in_unit(lo, a, b) <= v && v <= in_unit(hi, c, b)), "C16/K/clamp: value returned although outside the range");
            }
        }
        Ok(Value::Calculation(calc)) => {
            assert!(calc.name == CalculationName::Clamp && calc.args.len() == 3, "C16/K/clamp: unsimplified clamp keeps three arguments");
            assert!(is_number_arg(&calc.args[0], lo, a) && is_number_arg(&calc.args[1], v, b) && is_number_arg(&calc.args[2], hi, c), "C16/K/clamp: arguments unchanged and in order");
        }
        Ok(_) => assert!(false, "C16/K/clamp: result is a number or a calculation"),
        Err(_) => {}
    }
    std::mem::forget(r); // Value's drop glue reaches HashMap's (Kani ICE, DESIGN E-K7)
}

//@ ob: id=C16/K/clamp_min_none kind=K-bounded fns=SassCalculation::clamp,Number::convert also=C01 bound="min unit = none; value and max units from the class representatives {none,px,in,em,deg}; magnitudes 10/15/20 plus value below/above the range"
//@ desc: clamp(min, value, max) on three numbers never violates Number::convert.requires; it reduces to a number only when the three are mutually convertible, the result is then one of the arguments and lies between min and max (after conversion); otherwise the arguments are returned unchanged, in order, as an unsimplified clamp()
#[kani::proof]
#[kani::unwind(2)]
#[kani::stub(crate::value::Number::convert, convert_contract)]
#[kani::stub(SassCalculation::verify_compatible_numbers, vcn_stub)]
#[kani::stub(alloc::fmt::format, format_stub)]
fn c16_clamp_min_none() {
    check_clamp(&unit_of(34, 3), &unit_of(34, 3), &unit_of(34, 3), 10.0, 15.0, 20.0);
    check_clamp(&unit_of(34, 3), &unit_of(34, 3), &unit_of(0, 3), 10.0, 15.0, 20.0);
    check_clamp(&unit_of(34, 3), &unit_of(34, 3), &unit_of(2, 3), 10.0, 15.0, 20.0);
    check_clamp(&unit_of(34, 3), &unit_of(34, 3), &unit_of(7, 3), 10.0, 15.0, 20.0);
    check_clamp(&unit_of(34, 3), &unit_of(34, 3), &unit_of(21, 3), 10.0, 15.0, 20.0);
    check_clamp(&unit_of(34, 3), &unit_of(0, 3), &unit_of(34, 3), 10.0, 15.0, 20.0);
    check_clamp(&unit_of(34, 3), &unit_of(0, 3), &unit_of(0, 3), 10.0, 15.0, 20.0);
    check_clamp(&unit_of(34, 3), &unit_of(0, 3), &unit_of(2, 3), 10.0, 15.0, 20.0);
    check_clamp(&unit_of(34, 3), &unit_of(0, 3), &unit_of(7, 3), 10.0, 15.0, 20.0);
    check_clamp(&unit_of(34, 3), &unit_of(0, 3), &unit_of(21, 3), 10.0, 15.0, 20.0);
    check_clamp(&unit_of(34, 3), &unit_of(2, 3), &unit_of(34, 3), 10.0, 15.0, 20.0);
    check_clamp(&unit_of(34, 3), &unit_of(2, 3), &unit_of(0, 3), 10.0, 15.0, 20.0);
    check_clamp(&unit_of(34, 3), &unit_of(2, 3), &unit_of(2, 3), 10.0, 15.0, 20.0);
    check_clamp(&unit_of(34, 3), &unit_of(2, 3), &unit_of(7, 3), 10.0, 15.0, 20.0);
    check_clamp(&unit_of(34, 3), &unit_of(2, 3), &unit_of(21, 3), 10.0, 15.0, 20.0);
    check_clamp(&unit_of(34, 3), &unit_of(7, 3), &unit_of(34, 3), 10.0, 15.0, 20.0);
    check_clamp(&unit_of(34, 3), &unit_of(7, 3), &unit_of(0, 3), 10.0, 15.0, 20.0);
    check_clamp(&unit_of(34, 3), &unit_of(7, 3), &unit_of(2, 3), 10.0, 15.0, 20.0);
    check_clamp(&unit_of(34, 3), &unit_of(7, 3), &unit_of(7, 3), 10.0, 15.0, 20.0);
    check_clamp(&unit_of(34, 3), &unit_of(7, 3), &unit_of(21, 3), 10.0, 15.0, 20.0);
    check_clamp(&unit_of(34, 3), &unit_of(21, 3), &unit_of(34, 3), 10.0, 15.0, 20.0);
    check_clamp(&unit_of(34, 3), &unit_of(21, 3), &unit_of(0, 3), 10.0, 15.0, 20.0);
    check_clamp(&unit_of(34, 3), &unit_of(21, 3), &unit_of(2, 3), 10.0, 15.0, 20.0);
    check_clamp(&unit_of(34, 3), &unit_of(21, 3), &unit_of(7, 3), 10.0, 15.0, 20.0);
    check_clamp(&unit_of(34, 3), &unit_of(21, 3), &unit_of(21, 3), 10.0, 15.0, 20.0);
    check_clamp(&unit_of(34, 3), &unit_of(34, 3), &unit_of(34, 3), 10.0, 5.0, 20.0);
    check_clamp(&unit_of(34, 3), &unit_of(34, 3), &unit_of(34, 3), 10.0, 25.0, 20.0);
    kani::cover!(true);
}

//@ ob: id=C16/K/clamp_min_px kind=K-bounded fns=SassCalculation::clamp,Number::convert also=C01 bound="min unit = px; value and max units from the class representatives {none,px,in,em,deg}; magnitudes 10/15/20 plus value below/above the range"
//@ desc: clamp(min, value, max) on three numbers never violates Number::convert.requires; it reduces to a number only when the three are mutually convertible, the result is then one of the arguments and lies between min and max (after conversion); otherwise the arguments are returned unchanged, in order, as an unsimplified clamp()
#[kani::proof]
#[kani::unwind(2)]
#[kani::stub(crate::value::Number::convert, convert_contract)]
#[kani::stub(SassCalculation::verify_compatible_numbers, vcn_stub)]
#[kani::stub(alloc::fmt::format, format_stub)]
fn c16_clamp_min_px() {
    check_clamp(&unit_of(0, 3), &unit_of(34, 3), &unit_of(34, 3), 10.0, 15.0, 20.0);
    check_clamp(&unit_of(0, 3), &unit_of(34, 3), &unit_of(0, 3), 10.0, 15.0, 20.0);
    check_clamp(&unit_of(0, 3), &unit_of(34, 3), &unit_of(2, 3), 10.0, 15.0, 20.0);
    check_clamp(&unit_of(0, 3), &unit_of(34, 3), &unit_of(7, 3), 10.0, 15.0, 20.0);
    check_clamp(&unit_of(0, 3), &unit_of(34, 3), &unit_of(21, 3), 10.0, 15.0, 20.0);
    check_clamp(&unit_of(0, 3), &unit_of(0, 3), &unit_of(34, 3), 10.0, 15.0, 20.0);
    check_clamp(&unit_of(0, 3), &unit_of(0, 3), &unit_of(0, 3), 10.0, 15.0, 20.0);
    check_clamp(&unit_of(0, 3), &unit_of(0, 3), &unit_of(2, 3), 10.0, 15.0, 20.0);
    check_clamp(&unit_of(0, 3), &unit_of(0, 3), &unit_of(7, 3), 10.0, 15.0, 20.0);
    check_clamp(&unit_of(0, 3), &unit_of(0, 3), &unit_of(21, 3), 10.0, 15.0, 20.0);
    check_clamp(&unit_of(0, 3), &unit_of(2, 3), &unit_of(34, 3), 10.0, 15.0, 20.0);
    check_clamp(&unit_of(0, 3), &unit_of(2, 3), &unit_of(0, 3), 10.0, 15.0, 20.0);
    check_clamp(&unit_of(0, 3), &unit_of(2, 3), &unit_of(2, 3), 10.0, 15.0, 20.0);
    check_clamp(&unit_of(0, 3), &unit_of(2, 3), &unit_of(7, 3), 10.0, 15.0, 20.0);
    check_clamp(&unit_of(0, 3), &unit_of(2, 3), &unit_of(21, 3), 10.0, 15.0, 20.0);
    check_clamp(&unit_of(0, 3), &unit_of(7, 3), &unit_of(34, 3), 10.0, 15.0, 20.0);
    check_clamp(&unit_of(0, 3), &unit_of(7, 3), &unit_of(0, 3), 10.0, 15.0, 20.0);
    check_clamp(&unit_of(0, 3), &unit_of(7, 3), &unit_of(2, 3), 10.0, 15.0, 20.0);
    check_clamp(&unit_of(0, 3), &unit_of(7, 3), &unit_of(7, 3), 10.0, 15.0, 20.0);
    check_clamp(&unit_of(0, 3), &unit_of(7, 3), &unit_of(21, 3), 10.0, 15.0, 20.0);
    check_clamp(&unit_of(0, 3), &unit_of(21, 3), &unit_of(34, 3), 10.0, 15.0, 20.0);
    check_clamp(&unit_of(0, 3), &unit_of(21, 3), &unit_of(0, 3), 10.0, 15.0, 20.0);
    check_clamp(&unit_of(0, 3), &unit_of(21, 3), &unit_of(2, 3), 10.0, 15.0, 20.0);
    check_clamp(&unit_of(0, 3), &unit_of(21, 3), &unit_of(7, 3), 10.0, 15.0, 20.0);
    check_clamp(&unit_of(0, 3), &unit_of(21, 3), &unit_of(21, 3), 10.0, 15.0, 20.0);
    check_clamp(&unit_of(0, 3), &unit_of(0, 3), &unit_of(0, 3), 10.0, 5.0, 20.0);
    check_clamp(&unit_of(0, 3), &unit_of(0, 3), &unit_of(0, 3), 10.0, 25.0, 20.0);
    kani::cover!(true);
}

//@ ob: id=C16/K/clamp_min_in kind=K-bounded fns=SassCalculation::clamp,Number::convert also=C01 bound="min unit = in; value and max units from the class representatives {none,px,in,em,deg}; magnitudes 10/15/20 plus value below/above the range"
//@ desc: clamp(min, value, max) on three numbers never violates Number::convert.requires; it reduces to a number only when the three are mutually convertible, the result is then one of the arguments and lies between min and max (after conversion); otherwise the arguments are returned unchanged, in order, as an unsimplified clamp()
#[kani::proof]
#[kani::unwind(2)]
#[kani::stub(crate::value::Number::convert, convert_contract)]
#[kani::stub(SassCalculation::verify_compatible_numbers, vcn_stub)]
#[kani::stub(alloc::fmt::format, format_stub)]
fn c16_clamp_min_in() {
    check_clamp(&unit_of(2, 3), &unit_of(34, 3), &unit_of(34, 3), 10.0, 15.0, 20.0);
    check_clamp(&unit_of(2, 3), &unit_of(34, 3), &unit_of(0, 3), 10.0, 15.0, 20.0);
    check_clamp(&unit_of(2, 3), &unit_of(34, 3), &unit_of(2, 3), 10.0, 15.0, 20.0);
    check_clamp(&unit_of(2, 3), &unit_of(34, 3), &unit_of(7, 3), 10.0, 15.0, 20.0);
    check_clamp(&unit_of(2, 3), &unit_of(34, 3), &unit_of(21, 3), 10.0, 15.0, 20.0);
    check_clamp(&unit_of(2, 3), &unit_of(0, 3), &unit_of(34, 3), 10.0, 15.0, 20.0);
    check_clamp(&unit_of(2, 3), &unit_of(0, 3), &unit_of(0, 3), 10.0, 15.0, 20.0);
    check_clamp(&unit_of(2, 3), &unit_of(0, 3), &unit_of(2, 3), 10.0, 15.0, 20.0);
    check_clamp(&unit_of(2, 3), &unit_of(0, 3), &unit_of(7, 3), 10.0, 15.0, 20.0);
    check_clamp(&unit_of(2, 3), &unit_of(0, 3), &unit_of(21, 3), 10.0, 15.0, 20.0);
    check_clamp(&unit_of(2, 3), &unit_of(2, 3), &unit_of(34, 3), 10.0, 15.0, 20.0);
    check_clamp(&unit_of(2, 3), &unit_of(2, 3), &unit_of(0, 3), 10.0, 15.0, 20.0);
    check_clamp(&unit_of(2, 3), &unit_of(2, 3), &unit_of(2, 3), 10.0, 15.0, 20.0);
    check_clamp(&unit_of(2, 3), &unit_of(2, 3), &unit_of(7, 3), 10.0, 15.0, 20.0);
    check_clamp(&unit_of(2, 3), &unit_of(2, 3), &unit_of(21, 3), 10.0, 15.0, 20.0);
    check_clamp(&unit_of(2, 3), &unit_of(7, 3), &unit_of(34, 3), 10.0, 15.0, 20.0);
    check_clamp(&unit_of(2, 3), &unit_of(7, 3), &unit_of(0, 3), 10.0, 15.0, 20.0);
    check_clamp(&unit_of(2, 3), &unit_of(7, 3), &unit_of(2, 3), 10.0, 15.0, 20.0);
    check_clamp(&unit_of(2, 3), &unit_of(7, 3), &unit_of(7, 3), 10.0, 15.0, 20.0);
    check_clamp(&unit_of(2, 3), &unit_of(7, 3), &unit_of(21, 3), 10.0, 15.0, 20.0);
    check_clamp(&unit_of(2, 3), &unit_of(21, 3), &unit_of(34, 3), 10.0, 15.0, 20.0);
    check_clamp(&unit_of(2, 3), &unit_of(21, 3), &unit_of(0, 3), 10.0, 15.0, 20.0);
    check_clamp(&unit_of(2, 3), &unit_of(21, 3), &unit_of(2, 3), 10.0, 15.0, 20.0);
    check_clamp(&unit_of(2, 3), &unit_of(21, 3), &unit_of(7, 3), 10.0, 15.0, 20.0);
    check_clamp(&unit_of(2, 3), &unit_of(21, 3), &unit_of(21, 3), 10.0, 15.0, 20.0);
    check_clamp(&unit_of(2, 3), &unit_of(2, 3), &unit_of(2, 3), 10.0, 5.0, 20.0);
    check_clamp(&unit_of(2, 3), &unit_of(2, 3), &unit_of(2, 3), 10.0, 25.0, 20.0);
    kani::cover!(true);
}

//@ ob: id=C16/K/clamp_min_em kind=K-bounded fns=SassCalculation::clamp,Number::convert also=C01 bound="min unit = em; value and max units from the class representatives {none,px,in,em,deg}; magnitudes 10/15/20 plus value below/above the range"
//@ desc: clamp(min, value, max) on three numbers never violates Number::convert.requires; it reduces to a number only when the three are mutually convertible, the result is then one of the arguments and lies between min and max (after conversion); otherwise the arguments are returned unchanged, in order, as an unsimplified clamp()
#[kani::proof]
#[kani::unwind(2)]
#[kani::stub(crate::value::Number::convert, convert_contract)]
#[kani::stub(SassCalculation::verify_compatible_numbers, vcn_stub)]
#[kani::stub(alloc::fmt::format, format_stub)]
fn c16_clamp_min_em() {
    check_clamp(&unit_of(7, 3), &unit_of(34, 3), &unit_of(34, 3), 10.0, 15.0, 20.0);
    check_clamp(&unit_of(7, 3), &unit_of(34, 3), &unit_of(0, 3), 10.0, 15.0, 20.0);
    check_clamp(&unit_of(7, 3), &unit_of(34, 3), &unit_of(2, 3), 10.0, 15.0, 20.0);
    check_clamp(&unit_of(7, 3), &unit_of(34, 3), &unit_of(7, 3), 10.0, 15.0, 20.0);
    check_clamp(&unit_of(7, 3), &unit_of(34, 3), &unit_of(21, 3), 10.0, 15.0, 20.0);
    check_clamp(&unit_of(7, 3), &unit_of(0, 3), &unit_of(34, 3), 10.0, 15.0, 20.0);
    check_clamp(&unit_of(7, 3), &unit_of(0, 3), &unit_of(0, 3), 10.0, 15.0, 20.0);
    check_clamp(&unit_of(7, 3), &unit_of(0, 3), &unit_of(2, 3), 10.0, 15.0, 20.0);
    check_clamp(&unit_of(7, 3), &unit_of(0, 3), &unit_of(7, 3), 10.0, 15.0, 20.0);
    check_clamp(&unit_of(7, 3), &unit_of(0, 3), &unit_of(21, 3), 10.0, 15.0, 20.0);
    check_clamp(&unit_of(7, 3), &unit_of(2, 3), &unit_of(34, 3), 10.0, 15.0, 20.0);
    check_clamp(&unit_of(7, 3), &unit_of(2, 3), &unit_of(0, 3), 10.0, 15.0, 20.0);
    check_clamp(&unit_of(7, 3), &unit_of(2, 3), &unit_of(2, 3), 10.0, 15.0, 20.0);
    check_clamp(&unit_of(7, 3), &unit_of(2, 3), &unit_of(7, 3), 10.0, 15.0, 20.0);
    check_clamp(&unit_of(7, 3), &unit_of(2, 3), &unit_of(21, 3), 10.0, 15.0, 20.0);
    check_clamp(&unit_of(7, 3), &unit_of(7, 3), &unit_of(34, 3), 10.0, 15.0, 20.0);
    check_clamp(&unit_of(7, 3), &unit_of(7, 3), &unit_of(0, 3), 10.0, 15.0, 20.0);
    check_clamp(&unit_of(7, 3), &unit_of(7, 3), &unit_of(2, 3), 10.0, 15.0, 20.0);
    check_clamp(&unit_of(7, 3), &unit_of(7, 3), &unit_of(7, 3), 10.0, 15.0, 20.0);
    check_clamp(&unit_of(7, 3), &unit_of(7, 3), &unit_of(21, 3), 10.0, 15.0, 20.0);
    check_clamp(&unit_of(7, 3), &unit_of(21, 3), &unit_of(34, 3), 10.0, 15.0, 20.0);
    check_clamp(&unit_of(7, 3), &unit_of(21, 3), &unit_of(0, 3), 10.0, 15.0, 20.0);
    check_clamp(&unit_of(7, 3), &unit_of(21, 3), &unit_of(2, 3), 10.0, 15.0, 20.0);
    check_clamp(&unit_of(7, 3), &unit_of(21, 3), &unit_of(7, 3), 10.0, 15.0, 20.0);
    check_clamp(&unit_of(7, 3), &unit_of(21, 3), &unit_of(21, 3), 10.0, 15.0, 20.0);
    check_clamp(&unit_of(7, 3), &unit_of(7, 3), &unit_of(7, 3), 10.0, 5.0, 20.0);
    check_clamp(&unit_of(7, 3), &unit_of(7, 3), &unit_of(7, 3), 10.0, 25.0, 20.0);
    kani::cover!(true);
}

//@ ob: id=C16/K/clamp_min_deg kind=K-bounded fns=SassCalculation::clamp,Number::convert also=C01 bound="min unit = deg; value and max units from the class representatives {none,px,in,em,deg}; magnitudes 10/15/20 plus value below/above the range"
//@ desc: clamp(min, value, max) on three numbers never violates Number::convert.requires; it reduces to a number only when the three are mutually convertible, the result is then one of the arguments and lies between min and max (after conversion); otherwise the arguments are returned unchanged, in order, as an unsimplified clamp()
#[kani::proof]
#[kani::unwind(2)]
#[kani::stub(crate::value::Number::convert, convert_contract)]
#[kani::stub(SassCalculation::verify_compatible_numbers, vcn_stub)]
#[kani::stub(alloc::fmt::format, format_stub)]
fn c16_clamp_min_deg() {
    check_clamp(&unit_of(21, 3), &unit_of(34, 3), &unit_of(34, 3), 10.0, 15.0, 20.0);
    check_clamp(&unit_of(21, 3), &unit_of(34, 3), &unit_of(0, 3), 10.0, 15.0, 20.0);
    check_clamp(&unit_of(21, 3), &unit_of(34, 3), &unit_of(2, 3), 10.0, 15.0, 20.0);
    check_clamp(&unit_of(21, 3), &unit_of(34, 3), &unit_of(7, 3), 10.0, 15.0, 20.0);
    check_clamp(&unit_of(21, 3), &unit_of(34, 3), &unit_of(21, 3), 10.0, 15.0, 20.0);
    check_clamp(&unit_of(21, 3), &unit_of(0, 3), &unit_of(34, 3), 10.0, 15.0, 20.0);
    check_clamp(&unit_of(21, 3), &unit_of(0, 3), &unit_of(0, 3), 10.0, 15.0, 20.0);
    check_clamp(&unit_of(21, 3), &unit_of(0, 3), &unit_of(2, 3), 10.0, 15.0, 20.0);
    check_clamp(&unit_of(21, 3), &unit_of(0, 3), &unit_of(7, 3), 10.0, 15.0, 20.0);
    check_clamp(&unit_of(21, 3), &unit_of(0, 3), &unit_of(21, 3), 10.0, 15.0, 20.0);
    check_clamp(&unit_of(21, 3), &unit_of(2, 3), &unit_of(34, 3), 10.0, 15.0, 20.0);
    check_clamp(&unit_of(21, 3), &unit_of(2, 3), &unit_of(0, 3), 10.0, 15.0, 20.0);
    check_clamp(&unit_of(21, 3), &unit_of(2, 3), &unit_of(2, 3), 10.0, 15.0, 20.0);
    check_clamp(&unit_of(21, 3), &unit_of(2, 3), &unit_of(7, 3), 10.0, 15.0, 20.0);
    check_clamp(&unit_of(21, 3), &unit_of(2, 3), &unit_of(21, 3), 10.0, 15.0, 20.0);
    check_clamp(&unit_of(21, 3), &unit_of(7, 3), &unit_of(34, 3), 10.0, 15.0, 20.0);
    check_clamp(&unit_of(21, 3), &unit_of(7, 3), &unit_of(0, 3), 10.0, 15.0, 20.0);
    check_clamp(&unit_of(21, 3), &unit_of(7, 3), &unit_of(2, 3), 10.0, 15.0, 20.0);
    check_clamp(&unit_of(21, 3), &unit_of(7, 3), &unit_of(7, 3), 10.0, 15.0, 20.0);
    check_clamp(&unit_of(21, 3), &unit_of(7, 3), &unit_of(21, 3), 10.0, 15.0, 20.0);
    check_clamp(&unit_of(21, 3), &unit_of(21, 3), &unit_of(34, 3), 10.0, 15.0, 20.0);
    check_clamp(&unit_of(21, 3), &unit_of(21, 3), &unit_of(0, 3), 10.0, 15.0, 20.0);
    check_clamp(&unit_of(21, 3), &unit_of(21, 3), &unit_of(2, 3), 10.0, 15.0, 20.0);
    check_clamp(&unit_of(21, 3), &unit_of(21, 3), &unit_of(7, 3), 10.0, 15.0, 20.0);
    check_clamp(&unit_of(21, 3), &unit_of(21, 3), &unit_of(21, 3), 10.0, 15.0, 20.0);
    check_clamp(&unit_of(21, 3), &unit_of(21, 3), &unit_of(21, 3), 10.0, 5.0, 20.0);
    check_clamp(&unit_of(21, 3), &unit_of(21, 3), &unit_of(21, 3), 10.0, 25.0, 20.0);
    kani::cover!(true);
}

//@ ob: id=C16/K/clamp_inverted_range kind=K-bounded fns=SassCalculation::clamp bound="the single call clamp(10in, 15in, 20px)"
//@ desc: CSS defines clamp(MIN, VAL, MAX) as max(MIN, min(VAL, MAX)); when MAX < MIN that is MIN (clamp(10in, 15in, 20px) is 10in, as max(10in, min(15in, 20px)) is)
#[kani::proof]
#[kani::unwind(2)]
#[kani::stub(crate::value::Number::convert, convert_contract)]
#[kani::stub(SassCalculation::verify_compatible_numbers, vcn_stub)]
#[kani::stub(alloc::fmt::format, format_stub)]
fn c16_clamp_inverted_range() {
    let opts = options_for_kani();
    let r = SassCalculation::clamp(arg(10.0, &Unit::In), Some(arg(15.0, &Unit::In)), Some(arg(20.0, &Unit::Px)), &opts, span_of(0, 1));
    match &r {
        Ok(Value::Dimension(out)) => assert!(out.unit == Unit::In && out.num.0 == 10.0, "C16/K/clamp_inverted_range: clamp(10in, 15in, 20px) must be 10in"),
        _ => assert!(false, "C16/K/clamp_inverted_range: convertible numbers must reduce"),
    }
    kani::cover!(true);
    std::mem::forget(r);
}

// ---------------------------------------------------------------------------
// thorough tier: the same clamp contract over all 8^3 triples of the class
// representatives {none,px,in,em,deg,s,%,unknown} (64 straight-line calls per harness)
// ---------------------------------------------------------------------------

//@ ob: id=C16/K/clamp_all_reps_min_none kind=K-bounded tier=thorough fns=SassCalculation::clamp,Number::convert also=C01 bound="min unit = none; value and max units over the 8 class representatives {none,px,in,em,deg,s,%,unknown}; magnitudes 10/15/20"
//@ desc: clamp contract (see clamp_min_*) over the wider representative set
#[kani::proof]
#[kani::unwind(2)]
#[kani::stub(crate::value::Number::convert, convert_contract)]
#[kani::stub(SassCalculation::verify_compatible_numbers, vcn_stub)]
#[kani::stub(alloc::fmt::format, format_stub)]
fn c16_clamp_all_reps_min_none() {
    check_clamp(&unit_of(34, 3), &unit_of(34, 3), &unit_of(34, 3), 10.0, 15.0, 20.0);
    check_clamp(&unit_of(34, 3), &unit_of(34, 3), &unit_of(0, 3), 10.0, 15.0, 20.0);
    check_clamp(&unit_of(34, 3), &unit_of(34, 3), &unit_of(2, 3), 10.0, 15.0, 20.0);
    check_clamp(&unit_of(34, 3), &unit_of(34, 3), &unit_of(7, 3), 10.0, 15.0, 20.0);
    check_clamp(&unit_of(34, 3), &unit_of(34, 3), &unit_of(21, 3), 10.0, 15.0, 20.0);
    check_clamp(&unit_of(34, 3), &unit_of(34, 3), &unit_of(25, 3), 10.0, 15.0, 20.0);
    check_clamp(&unit_of(34, 3), &unit_of(34, 3), &unit_of(33, 3), 10.0, 15.0, 20.0);
    check_clamp(&unit_of(34, 3), &unit_of(34, 3), &unit_of(35, 3), 10.0, 15.0, 20.0);
    check_clamp(&unit_of(34, 3), &unit_of(0, 3), &unit_of(34, 3), 10.0, 15.0, 20.0);
    check_clamp(&unit_of(34, 3), &unit_of(0, 3), &unit_of(0, 3), 10.0, 15.0, 20.0);
    check_clamp(&unit_of(34, 3), &unit_of(0, 3), &unit_of(2, 3), 10.0, 15.0, 20.0);
    check_clamp(&unit_of(34, 3), &unit_of(0, 3), &unit_of(7, 3), 10.0, 15.0, 20.0);
    check_clamp(&unit_of(34, 3), &unit_of(0, 3), &unit_of(21, 3), 10.0, 15.0, 20.0);
    check_clamp(&unit_of(34, 3), &unit_of(0, 3), &unit_of(25, 3), 10.0, 15.0, 20.0);
    check_clamp(&unit_of(34, 3), &unit_of(0, 3), &unit_of(33, 3), 10.0, 15.0, 20.0);
    check_clamp(&unit_of(34, 3), &unit_of(0, 3), &unit_of(35, 3), 10.0, 15.0, 20.0);
    check_clamp(&unit_of(34, 3), &unit_of(2, 3), &unit_of(34, 3), 10.0, 15.0, 20.0);
    check_clamp(&unit_of(34, 3), &unit_of(2, 3), &unit_of(0, 3), 10.0, 15.0, 20.0);
    check_clamp(&unit_of(34, 3), &unit_of(2, 3), &unit_of(2, 3), 10.0, 15.0, 20.0);
    check_clamp(&unit_of(34, 3), &unit_of(2, 3), &unit_of(7, 3), 10.0, 15.0, 20.0);
    check_clamp(&unit_of(34, 3), &unit_of(2, 3), &unit_of(21, 3), 10.0, 15.0, 20.0);
    check_clamp(&unit_of(34, 3), &unit_of(2, 3), &unit_of(25, 3), 10.0, 15.0, 20.0);
    check_clamp(&unit_of(34, 3), &unit_of(2, 3), &unit_of(33, 3), 10.0, 15.0, 20.0);
    check_clamp(&unit_of(34, 3), &unit_of(2, 3), &unit_of(35, 3), 10.0, 15.0, 20.0);
    check_clamp(&unit_of(34, 3), &unit_of(7, 3), &unit_of(34, 3), 10.0, 15.0, 20.0);
    check_clamp(&unit_of(34, 3), &unit_of(7, 3), &unit_of(0, 3), 10.0, 15.0, 20.0);
    check_clamp(&unit_of(34, 3), &unit_of(7, 3), &unit_of(2, 3), 10.0, 15.0, 20.0);
    check_clamp(&unit_of(34, 3), &unit_of(7, 3), &unit_of(7, 3), 10.0, 15.0, 20.0);
    check_clamp(&unit_of(34, 3), &unit_of(7, 3), &unit_of(21, 3), 10.0, 15.0, 20.0);
    check_clamp(&unit_of(34, 3), &unit_of(7, 3), &unit_of(25, 3), 10.0, 15.0, 20.0);
    check_clamp(&unit_of(34, 3), &unit_of(7, 3), &unit_of(33, 3), 10.0, 15.0, 20.0);
    check_clamp(&unit_of(34, 3), &unit_of(7, 3), &unit_of(35, 3), 10.0, 15.0, 20.0);
    check_clamp(&unit_of(34, 3), &unit_of(21, 3), &unit_of(34, 3), 10.0, 15.0, 20.0);
    check_clamp(&unit_of(34, 3), &unit_of(21, 3), &unit_of(0, 3), 10.0, 15.0, 20.0);
    check_clamp(&unit_of(34, 3), &unit_of(21, 3), &unit_of(2, 3), 10.0, 15.0, 20.0);
    check_clamp(&unit_of(34, 3), &unit_of(21, 3), &unit_of(7, 3), 10.0, 15.0, 20.0);
    check_clamp(&unit_of(34, 3), &unit_of(21, 3), &unit_of(21, 3), 10.0, 15.0, 20.0);
    check_clamp(&unit_of(34, 3), &unit_of(21, 3), &unit_of(25, 3), 10.0, 15.0, 20.0);
    check_clamp(&unit_of(34, 3), &unit_of(21, 3), &unit_of(33, 3), 10.0, 15.0, 20.0);
    check_clamp(&unit_of(34, 3), &unit_of(21, 3), &unit_of(35, 3), 10.0, 15.0, 20.0);
    check_clamp(&unit_of(34, 3), &unit_of(25, 3), &unit_of(34, 3), 10.0, 15.0, 20.0);
    check_clamp(&unit_of(34, 3), &unit_of(25, 3), &unit_of(0, 3), 10.0, 15.0, 20.0);
    check_clamp(&unit_of(34, 3), &unit_of(25, 3), &unit_of(2, 3), 10.0, 15.0, 20.0);
    check_clamp(&unit_of(34, 3), &unit_of(25, 3), &unit_of(7, 3), 10.0, 15.0, 20.0);
    check_clamp(&unit_of(34, 3), &unit_of(25, 3), &unit_of(21, 3), 10.0, 15.0, 20.0);
    check_clamp(&unit_of(34, 3), &unit_of(25, 3), &unit_of(25, 3), 10.0, 15.0, 20.0);
    check_clamp(&unit_of(34, 3), &unit_of(25, 3), &unit_of(33, 3), 10.0, 15.0, 20.0);
    check_clamp(&unit_of(34, 3), &unit_of(25, 3), &unit_of(35, 3), 10.0, 15.0, 20.0);
    check_clamp(&unit_of(34, 3), &unit_of(33, 3), &unit_of(34, 3), 10.0, 15.0, 20.0);
    check_clamp(&unit_of(34, 3), &unit_of(33, 3), &unit_of(0, 3), 10.0, 15.0, 20.0);
    check_clamp(&unit_of(34, 3), &unit_of(33, 3), &unit_of(2, 3), 10.0, 15.0, 20.0);
    check_clamp(&unit_of(34, 3), &unit_of(33, 3), &unit_of(7, 3), 10.0, 15.0, 20.0);
    check_clamp(&unit_of(34, 3), &unit_of(33, 3), &unit_of(21, 3), 10.0, 15.0, 20.0);
    check_clamp(&unit_of(34, 3), &unit_of(33, 3), &unit_of(25, 3), 10.0, 15.0, 20.0);
    check_clamp(&unit_of(34, 3), &unit_of(33, 3), &unit_of(33, 3), 10.0, 15.0, 20.0);
    check_clamp(&unit_of(34, 3), &unit_of(33, 3), &unit_of(35, 3), 10.0, 15.0, 20.0);
    check_clamp(&unit_of(34, 3), &unit_of(35, 3), &unit_of(34, 3), 10.0, 15.0, 20.0);
    check_clamp(&unit_of(34, 3), &unit_of(35, 3), &unit_of(0, 3), 10.0, 15.0, 20.0);
    check_clamp(&unit_of(34, 3), &unit_of(35, 3), &unit_of(2, 3), 10.0, 15.0, 20.0);
    check_clamp(&unit_of(34, 3), &unit_of(35, 3), &unit_of(7, 3), 10.0, 15.0, 20.0);
    check_clamp(&unit_of(34, 3), &unit_of(35, 3), &unit_of(21, 3), 10.0, 15.0, 20.0);
    check_clamp(&unit_of(34, 3), &unit_of(35, 3), &unit_of(25, 3), 10.0, 15.0, 20.0);
    check_clamp(&unit_of(34, 3), &unit_of(35, 3), &unit_of(33, 3), 10.0, 15.0, 20.0);
    check_clamp(&unit_of(34, 3), &unit_of(35, 3), &unit_of(35, 3), 10.0, 15.0, 20.0);
    kani::cover!(true);
}

//@ ob: id=C16/K/clamp_all_reps_min_px kind=K-bounded tier=thorough fns=SassCalculation::clamp,Number::convert also=C01 bound="min unit = px; value and max units over the 8 class representatives {none,px,in,em,deg,s,%,unknown}; magnitudes 10/15/20"
//@ desc: clamp contract (see clamp_min_*) over the wider representative set
#[kani::proof]
#[kani::unwind(2)]
#[kani::stub(crate::value::Number::convert, convert_contract)]
#[kani::stub(SassCalculation::verify_compatible_numbers, vcn_stub)]
#[kani::stub(alloc::fmt::format, format_stub)]
fn c16_clamp_all_reps_min_px() {
    check_clamp(&unit_of(0, 3), &unit_of(34, 3), &unit_of(34, 3), 10.0, 15.0, 20.0);
    check_clamp(&unit_of(0, 3), &unit_of(34, 3), &unit_of(0, 3), 10.0, 15.0, 20.0);
    check_clamp(&unit_of(0, 3), &unit_of(34, 3), &unit_of(2, 3), 10.0, 15.0, 20.0);
    check_clamp(&unit_of(0, 3), &unit_of(34, 3), &unit_of(7, 3), 10.0, 15.0, 20.0);
    check_clamp(&unit_of(0, 3), &unit_of(34, 3), &unit_of(21, 3), 10.0, 15.0, 20.0);
    check_clamp(&unit_of(0, 3), &unit_of(34, 3), &unit_of(25, 3), 10.0, 15.0, 20.0);
    check_clamp(&unit_of(0, 3), &unit_of(34, 3), &unit_of(33, 3), 10.0, 15.0, 20.0);
    check_clamp(&unit_of(0, 3), &unit_of(34, 3), &unit_of(35, 3), 10.0, 15.0, 20.0);
    check_clamp(&unit_of(0, 3), &unit_of(0, 3), &unit_of(34, 3), 10.0, 15.0, 20.0);
    check_clamp(&unit_of(0, 3), &unit_of(0, 3), &unit_of(0, 3), 10.0, 15.0, 20.0);
    check_clamp(&unit_of(0, 3), &unit_of(0, 3), &unit_of(2, 3), 10.0, 15.0, 20.0);
    check_clamp(&unit_of(0, 3), &unit_of(0, 3), &unit_of(7, 3), 10.0, 15.0, 20.0);
    check_clamp(&unit_of(0, 3), &unit_of(0, 3), &unit_of(21, 3), 10.0, 15.0, 20.0);
    check_clamp(&unit_of(0, 3), &unit_of(0, 3), &unit_of(25, 3), 10.0, 15.0, 20.0);
    check_clamp(&unit_of(0, 3), &unit_of(0, 3), &unit_of(33, 3), 10.0, 15.0, 20.0);
    check_clamp(&unit_of(0, 3), &unit_of(0, 3), &unit_of(35, 3), 10.0, 15.0, 20.0);
    check_clamp(&unit_of(0, 3), &unit_of(2, 3), &unit_of(34, 3), 10.0, 15.0, 20.0);
    check_clamp(&unit_of(0, 3), &unit_of(2, 3), &unit_of(0, 3), 10.0, 15.0, 20.0);
    check_clamp(&unit_of(0, 3), &unit_of(2, 3), &unit_of(2, 3), 10.0, 15.0, 20.0);
    check_clamp(&unit_of(0, 3), &unit_of(2, 3), &unit_of(7, 3), 10.0, 15.0, 20.0);
    check_clamp(&unit_of(0, 3), &unit_of(2, 3), &unit_of(21, 3), 10.0, 15.0, 20.0);
    check_clamp(&unit_of(0, 3), &unit_of(2, 3), &unit_of(25, 3), 10.0, 15.0, 20.0);
    check_clamp(&unit_of(0, 3), &unit_of(2, 3), &unit_of(33, 3), 10.0, 15.0, 20.0);
    check_clamp(&unit_of(0, 3), &unit_of(2, 3), &unit_of(35, 3), 10.0, 15.0, 20.0);
    check_clamp(&unit_of(0, 3), &unit_of(7, 3), &unit_of(34, 3), 10.0, 15.0, 20.0);
    check_clamp(&unit_of(0, 3), &unit_of(7, 3), &unit_of(0, 3), 10.0, 15.0, 20.0);
    check_clamp(&unit_of(0, 3), &unit_of(7, 3), &unit_of(2, 3), 10.0, 15.0, 20.0);
    check_clamp(&unit_of(0, 3), &unit_of(7, 3), &unit_of(7, 3), 10.0, 15.0, 20.0);
    check_clamp(&unit_of(0, 3), &unit_of(7, 3), &unit_of(21, 3), 10.0, 15.0, 20.0);
    check_clamp(&unit_of(0, 3), &unit_of(7, 3), &unit_of(25, 3), 10.0, 15.0, 20.0);
    check_clamp(&unit_of(0, 3), &unit_of(7, 3), &unit_of(33, 3), 10.0, 15.0, 20.0);
    check_clamp(&unit_of(0, 3), &unit_of(7, 3), &unit_of(35, 3), 10.0, 15.0, 20.0);
    check_clamp(&unit_of(0, 3), &unit_of(21, 3), &unit_of(34, 3), 10.0, 15.0, 20.0);
    check_clamp(&unit_of(0, 3), &unit_of(21, 3), &unit_of(0, 3), 10.0, 15.0, 20.0);
    check_clamp(&unit_of(0, 3), &unit_of(21, 3), &unit_of(2, 3), 10.0, 15.0, 20.0);
    check_clamp(&unit_of(0, 3), &unit_of(21, 3), &unit_of(7, 3), 10.0, 15.0, 20.0);
    check_clamp(&unit_of(0, 3), &unit_of(21, 3), &unit_of(21, 3), 10.0, 15.0, 20.0);
    check_clamp(&unit_of(0, 3), &unit_of(21, 3), &unit_of(25, 3), 10.0, 15.0, 20.0);
    check_clamp(&unit_of(0, 3), &unit_of(21, 3), &unit_of(33, 3), 10.0, 15.0, 20.0);
    check_clamp(&unit_of(0, 3), &unit_of(21, 3), &unit_of(35, 3), 10.0, 15.0, 20.0);
    check_clamp(&unit_of(0, 3), &unit_of(25, 3), &unit_of(34, 3), 10.0, 15.0, 20.0);
    check_clamp(&unit_of(0, 3), &unit_of(25, 3), &unit_of(0, 3), 10.0, 15.0, 20.0);
    check_clamp(&unit_of(0, 3), &unit_of(25, 3), &unit_of(2, 3), 10.0, 15.0, 20.0);
    check_clamp(&unit_of(0, 3), &unit_of(25, 3), &unit_of(7, 3), 10.0, 15.0, 20.0);
    check_clamp(&unit_of(0, 3), &unit_of(25, 3), &unit_of(21, 3), 10.0, 15.0, 20.0);
    check_clamp(&unit_of(0, 3), &unit_of(25, 3), &unit_of(25, 3), 10.0, 15.0, 20.0);
    check_clamp(&unit_of(0, 3), &unit_of(25, 3), &unit_of(33, 3), 10.0, 15.0, 20.0);
    check_clamp(&unit_of(0, 3), &unit_of(25, 3), &unit_of(35, 3), 10.0, 15.0, 20.0);
    check_clamp(&unit_of(0, 3), &unit_of(33, 3), &unit_of(34, 3), 10.0, 15.0, 20.0);
    check_clamp(&unit_of(0, 3), &unit_of(33, 3), &unit_of(0, 3), 10.0, 15.0, 20.0);
    check_clamp(&unit_of(0, 3), &unit_of(33, 3), &unit_of(2, 3), 10.0, 15.0, 20.0);
    check_clamp(&unit_of(0, 3), &unit_of(33, 3), &unit_of(7, 3), 10.0, 15.0, 20.0);
    check_clamp(&unit_of(0, 3), &unit_of(33, 3), &unit_of(21, 3), 10.0, 15.0, 20.0);
    check_clamp(&unit_of(0, 3), &unit_of(33, 3), &unit_of(25, 3), 10.0, 15.0, 20.0);
    check_clamp(&unit_of(0, 3), &unit_of(33, 3), &unit_of(33, 3), 10.0, 15.0, 20.0);
    check_clamp(&unit_of(0, 3), &unit_of(33, 3), &unit_of(35, 3), 10.0, 15.0, 20.0);
    check_clamp(&unit_of(0, 3), &unit_of(35, 3), &unit_of(34, 3), 10.0, 15.0, 20.0);
    check_clamp(&unit_of(0, 3), &unit_of(35, 3), &unit_of(0, 3), 10.0, 15.0, 20.0);
    check_clamp(&unit_of(0, 3), &unit_of(35, 3), &unit_of(2, 3), 10.0, 15.0, 20.0);
    check_clamp(&unit_of(0, 3), &unit_of(35, 3), &unit_of(7, 3), 10.0, 15.0, 20.0);
    check_clamp(&unit_of(0, 3), &unit_of(35, 3), &unit_of(21, 3), 10.0, 15.0, 20.0);
    check_clamp(&unit_of(0, 3), &unit_of(35, 3), &unit_of(25, 3), 10.0, 15.0, 20.0);
    check_clamp(&unit_of(0, 3), &unit_of(35, 3), &unit_of(33, 3), 10.0, 15.0, 20.0);
    check_clamp(&unit_of(0, 3), &unit_of(35, 3), &unit_of(35, 3), 10.0, 15.0, 20.0);
    kani::cover!(true);
}

//@ ob: id=C16/K/clamp_all_reps_min_in kind=K-bounded tier=thorough fns=SassCalculation::clamp,Number::convert also=C01 bound="min unit = in; value and max units over the 8 class representatives {none,px,in,em,deg,s,%,unknown}; magnitudes 10/15/20"
//@ desc: clamp contract (see clamp_min_*) over the wider representative set
#[kani::proof]
#[kani::unwind(2)]
#[kani::stub(crate::value::Number::convert, convert_contract)]
#[kani::stub(SassCalculation::verify_compatible_numbers, vcn_stub)]
#[kani::stub(alloc::fmt::format, format_stub)]
fn c16_clamp_all_reps_min_in() {
    check_clamp(&unit_of(2, 3), &unit_of(34, 3), &unit_of(34, 3), 10.0, 15.0, 20.0);
    check_clamp(&unit_of(2, 3), &unit_of(34, 3), &unit_of(0, 3), 10.0, 15.0, 20.0);
    check_clamp(&unit_of(2, 3), &unit_of(34, 3), &unit_of(2, 3), 10.0, 15.0, 20.0);
    check_clamp(&unit_of(2, 3), &unit_of(34, 3), &unit_of(7, 3), 10.0, 15.0, 20.0);
    check_clamp(&unit_of(2, 3), &unit_of(34, 3), &unit_of(21, 3), 10.0, 15.0, 20.0);
    check_clamp(&unit_of(2, 3), &unit_of(34, 3), &unit_of(25, 3), 10.0, 15.0, 20.0);
    check_clamp(&unit_of(2, 3), &unit_of(34, 3), &unit_of(33, 3), 10.0, 15.0, 20.0);
    check_clamp(&unit_of(2, 3), &unit_of(34, 3), &unit_of(35, 3), 10.0, 15.0, 20.0);
    check_clamp(&unit_of(2, 3), &unit_of(0, 3), &unit_of(34, 3), 10.0, 15.0, 20.0);
    check_clamp(&unit_of(2, 3), &unit_of(0, 3), &unit_of(0, 3), 10.0, 15.0, 20.0);
    check_clamp(&unit_of(2, 3), &unit_of(0, 3), &unit_of(2, 3), 10.0, 15.0, 20.0);
    check_clamp(&unit_of(2, 3), &unit_of(0, 3), &unit_of(7, 3), 10.0, 15.0, 20.0);
    check_clamp(&unit_of(2, 3), &unit_of(0, 3), &unit_of(21, 3), 10.0, 15.0, 20.0);
    check_clamp(&unit_of(2, 3), &unit_of(0, 3), &unit_of(25, 3), 10.0, 15.0, 20.0);
    check_clamp(&unit_of(2, 3), &unit_of(0, 3), &unit_of(33, 3), 10.0, 15.0, 20.0);
    check_clamp(&unit_of(2, 3), &unit_of(0, 3), &unit_of(35, 3), 10.0, 15.0, 20.0);
    check_clamp(&unit_of(2, 3), &unit_of(2, 3), &unit_of(34, 3), 10.0, 15.0, 20.0);
    check_clamp(&unit_of(2, 3), &unit_of(2, 3), &unit_of(0, 3), 10.0, 15.0, 20.0);
    check_clamp(&unit_of(2, 3), &unit_of(2, 3), &unit_of(2, 3), 10.0, 15.0, 20.0);
    check_clamp(&unit_of(2, 3), &unit_of(2, 3), &unit_of(7, 3), 10.0, 15.0, 20.0);
    check_clamp(&unit_of(2, 3), &unit_of(2, 3), &unit_of(21, 3), 10.0, 15.0, 20.0);
    check_clamp(&unit_of(2, 3), &unit_of(2, 3), &unit_of(25, 3), 10.0, 15.0, 20.0);
    check_clamp(&unit_of(2, 3), &unit_of(2, 3), &unit_of(33, 3), 10.0, 15.0, 20.0);
    check_clamp(&unit_of(2, 3), &unit_of(2, 3), &unit_of(35, 3), 10.0, 15.0, 20.0);
    check_clamp(&unit_of(2, 3), &unit_of(7, 3), &unit_of(34, 3), 10.0, 15.0, 20.0);
    check_clamp(&unit_of(2, 3), &unit_of(7, 3), &unit_of(0, 3), 10.0, 15.0, 20.0);
    check_clamp(&unit_of(2, 3), &unit_of(7, 3), &unit_of(2, 3), 10.0, 15.0, 20.0);
    check_clamp(&unit_of(2, 3), &unit_of(7, 3), &unit_of(7, 3), 10.0, 15.0, 20.0);
    check_clamp(&unit_of(2, 3), &unit_of(7, 3), &unit_of(21, 3), 10.0, 15.0, 20.0);
    check_clamp(&unit_of(2, 3), &unit_of(7, 3), &unit_of(25, 3), 10.0, 15.0, 20.0);
    check_clamp(&unit_of(2, 3), &unit_of(7, 3), &unit_of(33, 3), 10.0, 15.0, 20.0);
    check_clamp(&unit_of(2, 3), &unit_of(7, 3), &unit_of(35, 3), 10.0, 15.0, 20.0);
    check_clamp(&unit_of(2, 3), &unit_of(21, 3), &unit_of(34, 3), 10.0, 15.0, 20.0);
    check_clamp(&unit_of(2, 3), &unit_of(21, 3), &unit_of(0, 3), 10.0, 15.0, 20.0);
    check_clamp(&unit_of(2, 3), &unit_of(21, 3), &unit_of(2, 3), 10.0, 15.0, 20.0);
    check_clamp(&unit_of(2, 3), &unit_of(21, 3), &unit_of(7, 3), 10.0, 15.0, 20.0);
    check_clamp(&unit_of(2, 3), &unit_of(21, 3), &unit_of(21, 3), 10.0, 15.0, 20.0);
    check_clamp(&unit_of(2, 3), &unit_of(21, 3), &unit_of(25, 3), 10.0, 15.0, 20.0);
    check_clamp(&unit_of(2, 3), &unit_of(21, 3), &unit_of(33, 3), 10.0, 15.0, 20.0);
    check_clamp(&unit_of(2, 3), &unit_of(21, 3), &unit_of(35, 3), 10.0, 15.0, 20.0);
    check_clamp(&unit_of(2, 3), &unit_of(25, 3), &unit_of(34, 3), 10.0, 15.0, 20.0);
    check_clamp(&unit_of(2, 3), &unit_of(25, 3), &unit_of(0, 3), 10.0, 15.0, 20.0);
    check_clamp(&unit_of(2, 3), &unit_of(25, 3), &unit_of(2, 3), 10.0, 15.0, 20.0);
    check_clamp(&unit_of(2, 3), &unit_of(25, 3), &unit_of(7, 3), 10.0, 15.0, 20.0);
    check_clamp(&unit_of(2, 3), &unit_of(25, 3), &unit_of(21, 3), 10.0, 15.0, 20.0);
    check_clamp(&unit_of(2, 3), &unit_of(25, 3), &unit_of(25, 3), 10.0, 15.0, 20.0);
    check_clamp(&unit_of(2, 3), &unit_of(25, 3), &unit_of(33, 3), 10.0, 15.0, 20.0);
    check_clamp(&unit_of(2, 3), &unit_of(25, 3), &unit_of(35, 3), 10.0, 15.0, 20.0);
    check_clamp(&unit_of(2, 3), &unit_of(33, 3), &unit_of(34, 3), 10.0, 15.0, 20.0);
    check_clamp(&unit_of(2, 3), &unit_of(33, 3), &unit_of(0, 3), 10.0, 15.0, 20.0);
    check_clamp(&unit_of(2, 3), &unit_of(33, 3), &unit_of(2, 3), 10.0, 15.0, 20.0);
    check_clamp(&unit_of(2, 3), &unit_of(33, 3), &unit_of(7, 3), 10.0, 15.0, 20.0);
    check_clamp(&unit_of(2, 3), &unit_of(33, 3), &unit_of(21, 3), 10.0, 15.0, 20.0);
    check_clamp(&unit_of(2, 3), &unit_of(33, 3), &unit_of(25, 3), 10.0, 15.0, 20.0);
    check_clamp(&unit_of(2, 3), &unit_of(33, 3), &unit_of(33, 3), 10.0, 15.0, 20.0);
    check_clamp(&unit_of(2, 3), &unit_of(33, 3), &unit_of(35, 3), 10.0, 15.0, 20.0);
    check_clamp(&unit_of(2, 3), &unit_of(35, 3), &unit_of(34, 3), 10.0, 15.0, 20.0);
    check_clamp(&unit_of(2, 3), &unit_of(35, 3), &unit_of(0, 3), 10.0, 15.0, 20.0);
    check_clamp(&unit_of(2, 3), &unit_of(35, 3), &unit_of(2, 3), 10.0, 15.0, 20.0);
    check_clamp(&unit_of(2, 3), &unit_of(35, 3), &unit_of(7, 3), 10.0, 15.0, 20.0);
    check_clamp(&unit_of(2, 3), &unit_of(35, 3), &unit_of(21, 3), 10.0, 15.0, 20.0);
    check_clamp(&unit_of(2, 3), &unit_of(35, 3), &unit_of(25, 3), 10.0, 15.0, 20.0);
    check_clamp(&unit_of(2, 3), &unit_of(35, 3), &unit_of(33, 3), 10.0, 15.0, 20.0);
    check_clamp(&unit_of(2, 3), &unit_of(35, 3), &unit_of(35, 3), 10.0, 15.0, 20.0);
    kani::cover!(true);
}

//@ ob: id=C16/K/clamp_all_reps_min_em kind=K-bounded tier=thorough fns=SassCalculation::clamp,Number::convert also=C01 bound="min unit = em; value and max units over the 8 class representatives {none,px,in,em,deg,s,%,unknown}; magnitudes 10/15/20"
//@ desc: clamp contract (see clamp_min_*) over the wider representative set
#[kani::proof]
#[kani::unwind(2)]
#[kani::stub(crate::value::Number::convert, convert_contract)]
#[kani::stub(SassCalculation::verify_compatible_numbers, vcn_stub)]
#[kani::stub(alloc::fmt::format, format_stub)]
fn c16_clamp_all_reps_min_em() {
    check_clamp(&unit_of(7, 3), &unit_of(34, 3), &unit_of(34, 3), 10.0, 15.0, 20.0);
    check_clamp(&unit_of(7, 3), &unit_of(34, 3), &unit_of(0, 3), 10.0, 15.0, 20.0);
    check_clamp(&unit_of(7, 3), &unit_of(34, 3), &unit_of(2, 3), 10.0, 15.0, 20.0);
    check_clamp(&unit_of(7, 3), &unit_of(34, 3), &unit_of(7, 3), 10.0, 15.0, 20.0);
    check_clamp(&unit_of(7, 3), &unit_of(34, 3), &unit_of(21, 3), 10.0, 15.0, 20.0);
    check_clamp(&unit_of(7, 3), &unit_of(34, 3), &unit_of(25, 3), 10.0, 15.0, 20.0);
    check_clamp(&unit_of(7, 3), &unit_of(34, 3), &unit_of(33, 3), 10.0, 15.0, 20.0);
    check_clamp(&unit_of(7, 3), &unit_of(34, 3), &unit_of(35, 3), 10.0, 15.0, 20.0);
    check_clamp(&unit_of(7, 3), &unit_of(0, 3), &unit_of(34, 3), 10.0, 15.0, 20.0);
    check_clamp(&unit_of(7, 3), &unit_of(0, 3), &unit_of(0, 3), 10.0, 15.0, 20.0);
    check_clamp(&unit_of(7, 3), &unit_of(0, 3), &unit_of(2, 3), 10.0, 15.0, 20.0);
    check_clamp(&unit_of(7, 3), &unit_of(0, 3), &unit_of(7, 3), 10.0, 15.0, 20.0);
    check_clamp(&unit_of(7, 3), &unit_of(0, 3), &unit_of(21, 3), 10.0, 15.0, 20.0);
    check_clamp(&unit_of(7, 3), &unit_of(0, 3), &unit_of(25, 3), 10.0, 15.0, 20.0);
    check_clamp(&unit_of(7, 3), &unit_of(0, 3), &unit_of(33, 3), 10.0, 15.0, 20.0);
    check_clamp(&unit_of(7, 3), &unit_of(0, 3), &unit_of(35, 3), 10.0, 15.0, 20.0);
    check_clamp(&unit_of(7, 3), &unit_of(2, 3), &unit_of(34, 3), 10.0, 15.0, 20.0);
    check_clamp(&unit_of(7, 3), &unit_of(2, 3), &unit_of(0, 3), 10.0, 15.0, 20.0);
    check_clamp(&unit_of(7, 3), &unit_of(2, 3), &unit_of(2, 3), 10.0, 15.0, 20.0);
    check_clamp(&unit_of(7, 3), &unit_of(2, 3), &unit_of(7, 3), 10.0, 15.0, 20.0);
    check_clamp(&unit_of(7, 3), &unit_of(2, 3), &unit_of(21, 3), 10.0, 15.0, 20.0);
    check_clamp(&unit_of(7, 3), &unit_of(2, 3), &unit_of(25, 3), 10.0, 15.0, 20.0);
    check_clamp(&unit_of(7, 3), &unit_of(2, 3), &unit_of(33, 3), 10.0, 15.0, 20.0);
    check_clamp(&unit_of(7, 3), &unit_of(2, 3), &unit_of(35, 3), 10.0, 15.0, 20.0);
    check_clamp(&unit_of(7, 3), &unit_of(7, 3), &unit_of(34, 3), 10.0, 15.0, 20.0);
    check_clamp(&unit_of(7, 3), &unit_of(7, 3), &unit_of(0, 3), 10.0, 15.0, 20.0);
    check_clamp(&unit_of(7, 3), &unit_of(7, 3), &unit_of(2, 3), 10.0, 15.0, 20.0);
    check_clamp(&unit_of(7, 3), &unit_of(7, 3), &unit_of(7, 3), 10.0, 15.0, 20.0);
    check_clamp(&unit_of(7, 3), &unit_of(7, 3), &unit_of(21, 3), 10.0, 15.0, 20.0);
    check_clamp(&unit_of(7, 3), &unit_of(7, 3), &unit_of(25, 3), 10.0, 15.0, 20.0);
    check_clamp(&unit_of(7, 3), &unit_of(7, 3), &unit_of(33, 3), 10.0, 15.0, 20.0);
    check_clamp(&unit_of(7, 3), &unit_of(7, 3), &unit_of(35, 3), 10.0, 15.0, 20.0);
    check_clamp(&unit_of(7, 3), &unit_of(21, 3), &unit_of(34, 3), 10.0, 15.0, 20.0);
    check_clamp(&unit_of(7, 3), &unit_of(21, 3), &unit_of(0, 3), 10.0, 15.0, 20.0);
    check_clamp(&unit_of(7, 3), &unit_of(21, 3), &unit_of(2, 3), 10.0, 15.0, 20.0);
    check_clamp(&unit_of(7, 3), &unit_of(21, 3), &unit_of(7, 3), 10.0, 15.0, 20.0);
    check_clamp(&unit_of(7, 3), &unit_of(21, 3), &unit_of(21, 3), 10.0, 15.0, 20.0);
    check_clamp(&unit_of(7, 3), &unit_of(21, 3), &unit_of(25, 3), 10.0, 15.0, 20.0);
    check_clamp(&unit_of(7, 3), &unit_of(21, 3), &unit_of(33, 3), 10.0, 15.0, 20.0);
    check_clamp(&unit_of(7, 3), &unit_of(21, 3), &unit_of(35, 3), 10.0, 15.0, 20.0);
    check_clamp(&unit_of(7, 3), &unit_of(25, 3), &unit_of(34, 3), 10.0, 15.0, 20.0);
    check_clamp(&unit_of(7, 3), &unit_of(25, 3), &unit_of(0, 3), 10.0, 15.0, 20.0);
    check_clamp(&unit_of(7, 3), &unit_of(25, 3), &unit_of(2, 3), 10.0, 15.0, 20.0);
    check_clamp(&unit_of(7, 3), &unit_of(25, 3), &unit_of(7, 3), 10.0, 15.0, 20.0);
    check_clamp(&unit_of(7, 3), &unit_of(25, 3), &unit_of(21, 3), 10.0, 15.0, 20.0);
    check_clamp(&unit_of(7, 3), &unit_of(25, 3), &unit_of(25, 3), 10.0, 15.0, 20.0);
    check_clamp(&unit_of(7, 3), &unit_of(25, 3), &unit_of(33, 3), 10.0, 15.0, 20.0);
    check_clamp(&unit_of(7, 3), &unit_of(25, 3), &unit_of(35, 3), 10.0, 15.0, 20.0);
    check_clamp(&unit_of(7, 3), &unit_of(33, 3), &unit_of(34, 3), 10.0, 15.0, 20.0);
    check_clamp(&unit_of(7, 3), &unit_of(33, 3), &unit_of(0, 3), 10.0, 15.0, 20.0);
    check_clamp(&unit_of(7, 3), &unit_of(33, 3), &unit_of(2, 3), 10.0, 15.0, 20.0);
    check_clamp(&unit_of(7, 3), &unit_of(33, 3), &unit_of(7, 3), 10.0, 15.0, 20.0);
    check_clamp(&unit_of(7, 3), &unit_of(33, 3), &unit_of(21, 3), 10.0, 15.0, 20.0);
    check_clamp(&unit_of(7, 3), &unit_of(33, 3), &unit_of(25, 3), 10.0, 15.0, 20.0);
    check_clamp(&unit_of(7, 3), &unit_of(33, 3), &unit_of(33, 3), 10.0, 15.0, 20.0);
    check_clamp(&unit_of(7, 3), &unit_of(33, 3), &unit_of(35, 3), 10.0, 15.0, 20.0);
    check_clamp(&unit_of(7, 3), &unit_of(35, 3), &unit_of(34, 3), 10.0, 15.0, 20.0);
    check_clamp(&unit_of(7, 3), &unit_of(35, 3), &unit_of(0, 3), 10.0, 15.0, 20.0);
    check_clamp(&unit_of(7, 3), &unit_of(35, 3), &unit_of(2, 3), 10.0, 15.0, 20.0);
    check_clamp(&unit_of(7, 3), &unit_of(35, 3), &unit_of(7, 3), 10.0, 15.0, 20.0);
    check_clamp(&unit_of(7, 3), &unit_of(35, 3), &unit_of(21, 3), 10.0, 15.0, 20.0);
    check_clamp(&unit_of(7, 3), &unit_of(35, 3), &unit_of(25, 3), 10.0, 15.0, 20.0);
    check_clamp(&unit_of(7, 3), &unit_of(35, 3), &unit_of(33, 3), 10.0, 15.0, 20.0);
    check_clamp(&unit_of(7, 3), &unit_of(35, 3), &unit_of(35, 3), 10.0, 15.0, 20.0);
    kani::cover!(true);
}

//@ ob: id=C16/K/clamp_all_reps_min_deg kind=K-bounded tier=thorough fns=SassCalculation::clamp,Number::convert also=C01 bound="min unit = deg; value and max units over the 8 class representatives {none,px,in,em,deg,s,%,unknown}; magnitudes 10/15/20"
//@ desc: clamp contract (see clamp_min_*) over the wider representative set
#[kani::proof]
#[kani::unwind(2)]
#[kani::stub(crate::value::Number::convert, convert_contract)]
#[kani::stub(SassCalculation::verify_compatible_numbers, vcn_stub)]
#[kani::stub(alloc::fmt::format, format_stub)]
fn c16_clamp_all_reps_min_deg() {
    check_clamp(&unit_of(21, 3), &unit_of(34, 3), &unit_of(34, 3), 10.0, 15.0, 20.0);
    check_clamp(&unit_of(21, 3), &unit_of(34, 3), &unit_of(0, 3), 10.0, 15.0, 20.0);
    check_clamp(&unit_of(21, 3), &unit_of(34, 3), &unit_of(2, 3), 10.0, 15.0, 20.0);
    check_clamp(&unit_of(21, 3), &unit_of(34, 3), &unit_of(7, 3), 10.0, 15.0, 20.0);
    check_clamp(&unit_of(21, 3), &unit_of(34, 3), &unit_of(21, 3), 10.0, 15.0, 20.0);
    check_clamp(&unit_of(21, 3), &unit_of(34, 3), &unit_of(25, 3), 10.0, 15.0, 20.0);
    check_clamp(&unit_of(21, 3), &unit_of(34, 3), &unit_of(33, 3), 10.0, 15.0, 20.0);
    check_clamp(&unit_of(21, 3), &unit_of(34, 3), &unit_of(35, 3), 10.0, 15.0, 20.0);
    check_clamp(&unit_of(21, 3), &unit_of(0, 3), &unit_of(34, 3), 10.0, 15.0, 20.0);
    check_clamp(&unit_of(21, 3), &unit_of(0, 3), &unit_of(0, 3), 10.0, 15.0, 20.0);
    check_clamp(&unit_of(21, 3), &unit_of(0, 3), &unit_of(2, 3), 10.0, 15.0, 20.0);
    check_clamp(&unit_of(21, 3), &unit_of(0, 3), &unit_of(7, 3), 10.0, 15.0, 20.0);
    check_clamp(&unit_of(21, 3), &unit_of(0, 3), &unit_of(21, 3), 10.0, 15.0, 20.0);
    check_clamp(&unit_of(21, 3), &unit_of(0, 3), &unit_of(25, 3), 10.0, 15.0, 20.0);
    check_clamp(&unit_of(21, 3), &unit_of(0, 3), &unit_of(33, 3), 10.0, 15.0, 20.0);
    check_clamp(&unit_of(21, 3), &unit_of(0, 3), &unit_of(35, 3), 10.0, 15.0, 20.0);
    check_clamp(&unit_of(21, 3), &unit_of(2, 3), &unit_of(34, 3), 10.0, 15.0, 20.0);
    check_clamp(&unit_of(21, 3), &unit_of(2, 3), &unit_of(0, 3), 10.0, 15.0, 20.0);
    check_clamp(&unit_of(21, 3), &unit_of(2, 3), &unit_of(2, 3), 10.0, 15.0, 20.0);
    check_clamp(&unit_of(21, 3), &unit_of(2, 3), &unit_of(7, 3), 10.0, 15.0, 20.0);
    check_clamp(&unit_of(21, 3), &unit_of(2, 3), &unit_of(21, 3), 10.0, 15.0, 20.0);
    check_clamp(&unit_of(21, 3), &unit_of(2, 3), &unit_of(25, 3), 10.0, 15.0, 20.0);
    check_clamp(&unit_of(21, 3), &unit_of(2, 3), &unit_of(33, 3), 10.0, 15.0, 20.0);
    check_clamp(&unit_of(21, 3), &unit_of(2, 3), &unit_of(35, 3), 10.0, 15.0, 20.0);
    check_clamp(&unit_of(21, 3), &unit_of(7, 3), &unit_of(34, 3), 10.0, 15.0, 20.0);
    check_clamp(&unit_of(21, 3), &unit_of(7, 3), &unit_of(0, 3), 10.0, 15.0, 20.0);
    check_clamp(&unit_of(21, 3), &unit_of(7, 3), &unit_of(2, 3), 10.0, 15.0, 20.0);
    check_clamp(&unit_of(21, 3), &unit_of(7, 3), &unit_of(7, 3), 10.0, 15.0, 20.0);
    check_clamp(&unit_of(21, 3), &unit_of(7, 3), &unit_of(21, 3), 10.0, 15.0, 20.0);
    check_clamp(&unit_of(21, 3), &unit_of(7, 3), &unit_of(25, 3), 10.0, 15.0, 20.0);
    check_clamp(&unit_of(21, 3), &unit_of(7, 3), &unit_of(33, 3), 10.0, 15.0, 20.0);
    check_clamp(&unit_of(21, 3), &unit_of(7, 3), &unit_of(35, 3), 10.0, 15.0, 20.0);
    check_clamp(&unit_of(21, 3), &unit_of(21, 3), &unit_of(34, 3), 10.0, 15.0, 20.0);
    check_clamp(&unit_of(21, 3), &unit_of(21, 3), &unit_of(0, 3), 10.0, 15.0, 20.0);
    check_clamp(&unit_of(21, 3), &unit_of(21, 3), &unit_of(2, 3), 10.0, 15.0, 20.0);
    check_clamp(&unit_of(21, 3), &unit_of(21, 3), &unit_of(7, 3), 10.0, 15.0, 20.0);
    check_clamp(&unit_of(21, 3), &unit_of(21, 3), &unit_of(21, 3), 10.0, 15.0, 20.0);
    check_clamp(&unit_of(21, 3), &unit_of(21, 3), &unit_of(25, 3), 10.0, 15.0, 20.0);
    check_clamp(&unit_of(21, 3), &unit_of(21, 3), &unit_of(33, 3), 10.0, 15.0, 20.0);
    check_clamp(&unit_of(21, 3), &unit_of(21, 3), &unit_of(35, 3), 10.0, 15.0, 20.0);
    check_clamp(&unit_of(21, 3), &unit_of(25, 3), &unit_of(34, 3), 10.0, 15.0, 20.0);
    check_clamp(&unit_of(21, 3), &unit_of(25, 3), &unit_of(0, 3), 10.0, 15.0, 20.0);
    check_clamp(&unit_of(21, 3), &unit_of(25, 3), &unit_of(2, 3), 10.0, 15.0, 20.0);
    check_clamp(&unit_of(21, 3), &unit_of(25, 3), &unit_of(7, 3), 10.0, 15.0, 20.0);
    check_clamp(&unit_of(21, 3), &unit_of(25, 3), &unit_of(21, 3), 10.0, 15.0, 20.0);
    check_clamp(&unit_of(21, 3), &unit_of(25, 3), &unit_of(25, 3), 10.0, 15.0, 20.0);
    check_clamp(&unit_of(21, 3), &unit_of(25, 3), &unit_of(33, 3), 10.0, 15.0, 20.0);
    check_clamp(&unit_of(21, 3), &unit_of(25, 3), &unit_of(35, 3), 10.0, 15.0, 20.0);
    check_clamp(&unit_of(21, 3), &unit_of(33, 3), &unit_of(34, 3), 10.0, 15.0, 20.0);
    check_clamp(&unit_of(21, 3), &unit_of(33, 3), &unit_of(0, 3), 10.0, 15.0, 20.0);
    check_clamp(&unit_of(21, 3), &unit_of(33, 3), &unit_of(2, 3), 10.0, 15.0, 20.0);
    check_clamp(&unit_of(21, 3), &unit_of(33, 3), &unit_of(7, 3), 10.0, 15.0, 20.0);
    check_clamp(&unit_of(21, 3), &unit_of(33, 3), &unit_of(21, 3), 10.0, 15.0, 20.0);
    check_clamp(&unit_of(21, 3), &unit_of(33, 3), &unit_of(25, 3), 10.0, 15.0, 20.0);
    check_clamp(&unit_of(21, 3), &unit_of(33, 3), &unit_of(33, 3), 10.0, 15.0, 20.0);
    check_clamp(&unit_of(21, 3), &unit_of(33, 3), &unit_of(35, 3), 10.0, 15.0, 20.0);
    check_clamp(&unit_of(21, 3), &unit_of(35, 3), &unit_of(34, 3), 10.0, 15.0, 20.0);
    check_clamp(&unit_of(21, 3), &unit_of(35, 3), &unit_of(0, 3), 10.0, 15.0, 20.0);
    check_clamp(&unit_of(21, 3), &unit_of(35, 3), &unit_of(2, 3), 10.0, 15.0, 20.0);
    check_clamp(&unit_of(21, 3), &unit_of(35, 3), &unit_of(7, 3), 10.0, 15.0, 20.0);
    check_clamp(&unit_of(21, 3), &unit_of(35, 3), &unit_of(21, 3), 10.0, 15.0, 20.0);
    check_clamp(&unit_of(21, 3), &unit_of(35, 3), &unit_of(25, 3), 10.0, 15.0, 20.0);
    check_clamp(&unit_of(21, 3), &unit_of(35, 3), &unit_of(33, 3), 10.0, 15.0, 20.0);
    check_clamp(&unit_of(21, 3), &unit_of(35, 3), &unit_of(35, 3), 10.0, 15.0, 20.0);
    kani::cover!(true);
}

//@ ob: id=C16/K/clamp_all_reps_min_s kind=K-bounded tier=thorough fns=SassCalculation::clamp,Number::convert also=C01 bound="min unit = s; value and max units over the 8 class representatives {none,px,in,em,deg,s,%,unknown}; magnitudes 10/15/20"
//@ desc: clamp contract (see clamp_min_*) over the wider representative set
#[kani::proof]
#[kani::unwind(2)]
#[kani::stub(crate::value::Number::convert, convert_contract)]
#[kani::stub(SassCalculation::verify_compatible_numbers, vcn_stub)]
#[kani::stub(alloc::fmt::format, format_stub)]
fn c16_clamp_all_reps_min_s() {
    check_clamp(&unit_of(25, 3), &unit_of(34, 3), &unit_of(34, 3), 10.0, 15.0, 20.0);
    check_clamp(&unit_of(25, 3), &unit_of(34, 3), &unit_of(0, 3), 10.0, 15.0, 20.0);
    check_clamp(&unit_of(25, 3), &unit_of(34, 3), &unit_of(2, 3), 10.0, 15.0, 20.0);
    check_clamp(&unit_of(25, 3), &unit_of(34, 3), &unit_of(7, 3), 10.0, 15.0, 20.0);
    check_clamp(&unit_of(25, 3), &unit_of(34, 3), &unit_of(21, 3), 10.0, 15.0, 20.0);
    check_clamp(&unit_of(25, 3), &unit_of(34, 3), &unit_of(25, 3), 10.0, 15.0, 20.0);
    check_clamp(&unit_of(25, 3), &unit_of(34, 3), &unit_of(33, 3), 10.0, 15.0, 20.0);
    check_clamp(&unit_of(25, 3), &unit_of(34, 3), &unit_of(35, 3), 10.0, 15.0, 20.0);
    check_clamp(&unit_of(25, 3), &unit_of(0, 3), &unit_of(34, 3), 10.0, 15.0, 20.0);
    check_clamp(&unit_of(25, 3), &unit_of(0, 3), &unit_of(0, 3), 10.0, 15.0, 20.0);
    check_clamp(&unit_of(25, 3), &unit_of(0, 3), &unit_of(2, 3), 10.0, 15.0, 20.0);
    check_clamp(&unit_of(25, 3), &unit_of(0, 3), &unit_of(7, 3), 10.0, 15.0, 20.0);
    check_clamp(&unit_of(25, 3), &unit_of(0, 3), &unit_of(21, 3), 10.0, 15.0, 20.0);
    check_clamp(&unit_of(25, 3), &unit_of(0, 3), &unit_of(25, 3), 10.0, 15.0, 20.0);
    check_clamp(&unit_of(25, 3), &unit_of(0, 3), &unit_of(33, 3), 10.0, 15.0, 20.0);
    check_clamp(&unit_of(25, 3), &unit_of(0, 3), &unit_of(35, 3), 10.0, 15.0, 20.0);
    check_clamp(&unit_of(25, 3), &unit_of(2, 3), &unit_of(34, 3), 10.0, 15.0, 20.0);
    check_clamp(&unit_of(25, 3), &unit_of(2, 3), &unit_of(0, 3), 10.0, 15.0, 20.0);
    check_clamp(&unit_of(25, 3), &unit_of(2, 3), &unit_of(2, 3), 10.0, 15.0, 20.0);
    check_clamp(&unit_of(25, 3), &unit_of(2, 3), &unit_of(7, 3), 10.0, 15.0, 20.0);
    check_clamp(&unit_of(25, 3), &unit_of(2, 3), &unit_of(21, 3), 10.0, 15.0, 20.0);
    check_clamp(&unit_of(25, 3), &unit_of(2, 3), &unit_of(25, 3), 10.0, 15.0, 20.0);
    check_clamp(&unit_of(25, 3), &unit_of(2, 3), &unit_of(33, 3), 10.0, 15.0, 20.0);
    check_clamp(&unit_of(25, 3), &unit_of(2, 3), &unit_of(35, 3), 10.0, 15.0, 20.0);
    check_clamp(&unit_of(25, 3), &unit_of(7, 3), &unit_of(34, 3), 10.0, 15.0, 20.0);
    check_clamp(&unit_of(25, 3), &unit_of(7, 3), &unit_of(0, 3), 10.0, 15.0, 20.0);
    check_clamp(&unit_of(25, 3), &unit_of(7, 3), &unit_of(2, 3), 10.0, 15.0, 20.0);
    check_clamp(&unit_of(25, 3), &unit_of(7, 3), &unit_of(7, 3), 10.0, 15.0, 20.0);
    check_clamp(&unit_of(25, 3), &unit_of(7, 3), &unit_of(21, 3), 10.0, 15.0, 20.0);
    check_clamp(&unit_of(25, 3), &unit_of(7, 3), &unit_of(25, 3), 10.0, 15.0, 20.0);
    check_clamp(&unit_of(25, 3), &unit_of(7, 3), &unit_of(33, 3), 10.0, 15.0, 20.0);
    check_clamp(&unit_of(25, 3), &unit_of(7, 3), &unit_of(35, 3), 10.0, 15.0, 20.0);
    check_clamp(&unit_of(25, 3), &unit_of(21, 3), &unit_of(34, 3), 10.0, 15.0, 20.0);
    check_clamp(&unit_of(25, 3), &unit_of(21, 3), &unit_of(0, 3), 10.0, 15.0, 20.0);
    check_clamp(&unit_of(25, 3), &unit_of(21, 3), &unit_of(2, 3), 10.0, 15.0, 20.0);
    check_clamp(&unit_of(25, 3), &unit_of(21, 3), &unit_of(7, 3), 10.0, 15.0, 20.0);
    check_clamp(&unit_of(25, 3), &unit_of(21, 3), &unit_of(21, 3), 10.0, 15.0, 20.0);
    check_clamp(&unit_of(25, 3), &unit_of(21, 3), &unit_of(25, 3), 10.0, 15.0, 20.0);
    check_clamp(&unit_of(25, 3), &unit_of(21, 3), &unit_of(33, 3), 10.0, 15.0, 20.0);
    check_clamp(&unit_of(25, 3), &unit_of(21, 3), &unit_of(35, 3), 10.0, 15.0, 20.0);
    check_clamp(&unit_of(25, 3), &unit_of(25, 3), &unit_of(34, 3), 10.0, 15.0, 20.0);
    check_clamp(&unit_of(25, 3), &unit_of(25, 3), &unit_of(0, 3), 10.0, 15.0, 20.0);
    check_clamp(&unit_of(25, 3), &unit_of(25, 3), &unit_of(2, 3), 10.0, 15.0, 20.0);
    check_clamp(&unit_of(25, 3), &unit_of(25, 3), &unit_of(7, 3), 10.0, 15.0, 20.0);
    check_clamp(&unit_of(25, 3), &unit_of(25, 3), &unit_of(21, 3), 10.0, 15.0, 20.0);
    check_clamp(&unit_of(25, 3), &unit_of(25, 3), &unit_of(25, 3), 10.0, 15.0, 20.0);
    check_clamp(&unit_of(25, 3), &unit_of(25, 3), &unit_of(33, 3), 10.0, 15.0, 20.0);
    check_clamp(&unit_of(25, 3), &unit_of(25, 3), &unit_of(35, 3), 10.0, 15.0, 20.0);
    check_clamp(&unit_of(25, 3), &unit_of(33, 3), &unit_of(34, 3), 10.0, 15.0, 20.0);
    check_clamp(&unit_of(25, 3), &unit_of(33, 3), &unit_of(0, 3), 10.0, 15.0, 20.0);
    check_clamp(&unit_of(25, 3), &unit_of(33, 3), &unit_of(2, 3), 10.0, 15.0, 20.0);
    check_clamp(&unit_of(25, 3), &unit_of(33, 3), &unit_of(7, 3), 10.0, 15.0, 20.0);
    check_clamp(&unit_of(25, 3), &unit_of(33, 3), &unit_of(21, 3), 10.0, 15.0, 20.0);
    check_clamp(&unit_of(25, 3), &unit_of(33, 3), &unit_of(25, 3), 10.0, 15.0, 20.0);
    check_clamp(&unit_of(25, 3), &unit_of(33, 3), &unit_of(33, 3), 10.0, 15.0, 20.0);
    check_clamp(&unit_of(25, 3), &unit_of(33, 3), &unit_of(35, 3), 10.0, 15.0, 20.0);
    check_clamp(&unit_of(25, 3), &unit_of(35, 3), &unit_of(34, 3), 10.0, 15.0, 20.0);
    check_clamp(&unit_of(25, 3), &unit_of(35, 3), &unit_of(0, 3), 10.0, 15.0, 20.0);
    check_clamp(&unit_of(25, 3), &unit_of(35, 3), &unit_of(2, 3), 10.0, 15.0, 20.0);
    check_clamp(&unit_of(25, 3), &unit_of(35, 3), &unit_of(7, 3), 10.0, 15.0, 20.0);
    check_clamp(&unit_of(25, 3), &unit_of(35, 3), &unit_of(21, 3), 10.0, 15.0, 20.0);
    check_clamp(&unit_of(25, 3), &unit_of(35, 3), &unit_of(25, 3), 10.0, 15.0, 20.0);
    check_clamp(&unit_of(25, 3), &unit_of(35, 3), &unit_of(33, 3), 10.0, 15.0, 20.0);
    check_clamp(&unit_of(25, 3), &unit_of(35, 3), &unit_of(35, 3), 10.0, 15.0, 20.0);
    kani::cover!(true);
}

//@ ob: id=C16/K/clamp_all_reps_min_percent kind=K-bounded tier=thorough fns=SassCalculation::clamp,Number::convert also=C01 bound="min unit = percent; value and max units over the 8 class representatives {none,px,in,em,deg,s,%,unknown}; magnitudes 10/15/20"
//@ desc: clamp contract (see clamp_min_*) over the wider representative set
#[kani::proof]
#[kani::unwind(2)]
#[kani::stub(crate::value::Number::convert, convert_contract)]
#[kani::stub(SassCalculation::verify_compatible_numbers, vcn_stub)]
#[kani::stub(alloc::fmt::format, format_stub)]
fn c16_clamp_all_reps_min_percent() {
    check_clamp(&unit_of(33, 3), &unit_of(34, 3), &unit_of(34, 3), 10.0, 15.0, 20.0);
    check_clamp(&unit_of(33, 3), &unit_of(34, 3), &unit_of(0, 3), 10.0, 15.0, 20.0);
    check_clamp(&unit_of(33, 3), &unit_of(34, 3), &unit_of(2, 3), 10.0, 15.0, 20.0);
    check_clamp(&unit_of(33, 3), &unit_of(34, 3), &unit_of(7, 3), 10.0, 15.0, 20.0);
    check_clamp(&unit_of(33, 3), &unit_of(34, 3), &unit_of(21, 3), 10.0, 15.0, 20.0);
    check_clamp(&unit_of(33, 3), &unit_of(34, 3), &unit_of(25, 3), 10.0, 15.0, 20.0);
    check_clamp(&unit_of(33, 3), &unit_of(34, 3), &unit_of(33, 3), 10.0, 15.0, 20.0);
    check_clamp(&unit_of(33, 3), &unit_of(34, 3), &unit_of(35, 3), 10.0, 15.0, 20.0);
    check_clamp(&unit_of(33, 3), &unit_of(0, 3), &unit_of(34, 3), 10.0, 15.0, 20.0);
    check_clamp(&unit_of(33, 3), &unit_of(0, 3), &unit_of(0, 3), 10.0, 15.0, 20.0);
    check_clamp(&unit_of(33, 3), &unit_of(0, 3), &unit_of(2, 3), 10.0, 15.0, 20.0);
    check_clamp(&unit_of(33, 3), &unit_of(0, 3), &unit_of(7, 3), 10.0, 15.0, 20.0);
    check_clamp(&unit_of(33, 3), &unit_of(0, 3), &unit_of(21, 3), 10.0, 15.0, 20.0);
    check_clamp(&unit_of(33, 3), &unit_of(0, 3), &unit_of(25, 3), 10.0, 15.0, 20.0);
    check_clamp(&unit_of(33, 3), &unit_of(0, 3), &unit_of(33, 3), 10.0, 15.0, 20.0);
    check_clamp(&unit_of(33, 3), &unit_of(0, 3), &unit_of(35, 3), 10.0, 15.0, 20.0);
    check_clamp(&unit_of(33, 3), &unit_of(2, 3), &unit_of(34, 3), 10.0, 15.0, 20.0);
    check_clamp(&unit_of(33, 3), &unit_of(2, 3), &unit_of(0, 3), 10.0, 15.0, 20.0);
    check_clamp(&unit_of(33, 3), &unit_of(2, 3), &unit_of(2, 3), 10.0, 15.0, 20.0);
    check_clamp(&unit_of(33, 3), &unit_of(2, 3), &unit_of(7, 3), 10.0, 15.0, 20.0);
    check_clamp(&unit_of(33, 3), &unit_of(2, 3), &unit_of(21, 3), 10.0, 15.0, 20.0);
    check_clamp(&unit_of(33, 3), &unit_of(2, 3), &unit_of(25, 3), 10.0, 15.0, 20.0);
    check_clamp(&unit_of(33, 3), &unit_of(2, 3), &unit_of(33, 3), 10.0, 15.0, 20.0);
    check_clamp(&unit_of(33, 3), &unit_of(2, 3), &unit_of(35, 3), 10.0, 15.0, 20.0);
    check_clamp(&unit_of(33, 3), &unit_of(7, 3), &unit_of(34, 3), 10.0, 15.0, 20.0);
    check_clamp(&unit_of(33, 3), &unit_of(7, 3), &unit_of(0, 3), 10.0, 15.0, 20.0);
    check_clamp(&unit_of(33, 3), &unit_of(7, 3), &unit_of(2, 3), 10.0, 15.0, 20.0);
    check_clamp(&unit_of(33, 3), &unit_of(7, 3), &unit_of(7, 3), 10.0, 15.0, 20.0);
    check_clamp(&unit_of(33, 3), &unit_of(7, 3), &unit_of(21, 3), 10.0, 15.0, 20.0);
    check_clamp(&unit_of(33, 3), &unit_of(7, 3), &unit_of(25, 3), 10.0, 15.0, 20.0);
    check_clamp(&unit_of(33, 3), &unit_of(7, 3), &unit_of(33, 3), 10.0, 15.0, 20.0);
    check_clamp(&unit_of(33, 3), &unit_of(7, 3), &unit_of(35, 3), 10.0, 15.0, 20.0);
    check_clamp(&unit_of(33, 3), &unit_of(21, 3), &unit_of(34, 3), 10.0, 15.0, 20.0);
    check_clamp(&unit_of(33, 3), &unit_of(21, 3), &unit_of(0, 3), 10.0, 15.0, 20.0);
    check_clamp(&unit_of(33, 3), &unit_of(21, 3), &unit_of(2, 3), 10.0, 15.0, 20.0);
    check_clamp(&unit_of(33, 3), &unit_of(21, 3), &unit_of(7, 3), 10.0, 15.0, 20.0);
    check_clamp(&unit_of(33, 3), &unit_of(21, 3), &unit_of(21, 3), 10.0, 15.0, 20.0);
    check_clamp(&unit_of(33, 3), &unit_of(21, 3), &unit_of(25, 3), 10.0, 15.0, 20.0);
    check_clamp(&unit_of(33, 3), &unit_of(21, 3), &unit_of(33, 3), 10.0, 15.0, 20.0);
    check_clamp(&unit_of(33, 3), &unit_of(21, 3), &unit_of(35, 3), 10.0, 15.0, 20.0);
    check_clamp(&unit_of(33, 3), &unit_of(25, 3), &unit_of(34, 3), 10.0, 15.0, 20.0);
    check_clamp(&unit_of(33, 3), &unit_of(25, 3), &unit_of(0, 3), 10.0, 15.0, 20.0);
    check_clamp(&unit_of(33, 3), &unit_of(25, 3), &unit_of(2, 3), 10.0, 15.0, 20.0);
    check_clamp(&unit_of(33, 3), &unit_of(25, 3), &unit_of(7, 3), 10.0, 15.0, 20.0);
    check_clamp(&unit_of(33, 3), &unit_of(25, 3), &unit_of(21, 3), 10.0, 15.0, 20.0);
    check_clamp(&unit_of(33, 3), &unit_of(25, 3), &unit_of(25, 3), 10.0, 15.0, 20.0);
    check_clamp(&unit_of(33, 3), &unit_of(25, 3), &unit_of(33, 3), 10.0, 15.0, 20.0);
    check_clamp(&unit_of(33, 3), &unit_of(25, 3), &unit_of(35, 3), 10.0, 15.0, 20.0);
    check_clamp(&unit_of(33, 3), &unit_of(33, 3), &unit_of(34, 3), 10.0, 15.0, 20.0);
    check_clamp(&unit_of(33, 3), &unit_of(33, 3), &unit_of(0, 3), 10.0, 15.0, 20.0);
    check_clamp(&unit_of(33, 3), &unit_of(33, 3), &unit_of(2, 3), 10.0, 15.0, 20.0);
    check_clamp(&unit_of(33, 3), &unit_of(33, 3), &unit_of(7, 3), 10.0, 15.0, 20.0);
    check_clamp(&unit_of(33, 3), &unit_of(33, 3), &unit_of(21, 3), 10.0, 15.0, 20.0);
    check_clamp(&unit_of(33, 3), &unit_of(33, 3), &unit_of(25, 3), 10.0, 15.0, 20.0);
    check_clamp(&unit_of(33, 3), &unit_of(33, 3), &unit_of(33, 3), 10.0, 15.0, 20.0);
    check_clamp(&unit_of(33, 3), &unit_of(33, 3), &unit_of(35, 3), 10.0, 15.0, 20.0);
    check_clamp(&unit_of(33, 3), &unit_of(35, 3), &unit_of(34, 3), 10.0, 15.0, 20.0);
    check_clamp(&unit_of(33, 3), &unit_of(35, 3), &unit_of(0, 3), 10.0, 15.0, 20.0);
    check_clamp(&unit_of(33, 3), &unit_of(35, 3), &unit_of(2, 3), 10.0, 15.0, 20.0);
    check_clamp(&unit_of(33, 3), &unit_of(35, 3), &unit_of(7, 3), 10.0, 15.0, 20.0);
    check_clamp(&unit_of(33, 3), &unit_of(35, 3), &unit_of(21, 3), 10.0, 15.0, 20.0);
    check_clamp(&unit_of(33, 3), &unit_of(35, 3), &unit_of(25, 3), 10.0, 15.0, 20.0);
    check_clamp(&unit_of(33, 3), &unit_of(35, 3), &unit_of(33, 3), 10.0, 15.0, 20.0);
    check_clamp(&unit_of(33, 3), &unit_of(35, 3), &unit_of(35, 3), 10.0, 15.0, 20.0);
    kani::cover!(true);
}

//@ ob: id=C16/K/clamp_all_reps_min_unknown kind=K-bounded tier=thorough fns=SassCalculation::clamp,Number::convert also=C01 bound="min unit = unknown; value and max units over the 8 class representatives {none,px,in,em,deg,s,%,unknown}; magnitudes 10/15/20"
//@ desc: clamp contract (see clamp_min_*) over the wider representative set
#[kani::proof]
#[kani::unwind(2)]
#[kani::stub(crate::value::Number::convert, convert_contract)]
#[kani::stub(SassCalculation::verify_compatible_numbers, vcn_stub)]
#[kani::stub(alloc::fmt::format, format_stub)]
fn c16_clamp_all_reps_min_unknown() {
    check_clamp(&unit_of(35, 3), &unit_of(34, 3), &unit_of(34, 3), 10.0, 15.0, 20.0);
    check_clamp(&unit_of(35, 3), &unit_of(34, 3), &unit_of(0, 3), 10.0, 15.0, 20.0);
    check_clamp(&unit_of(35, 3), &unit_of(34, 3), &unit_of(2, 3), 10.0, 15.0, 20.0);
    check_clamp(&unit_of(35, 3), &unit_of(34, 3), &unit_of(7, 3), 10.0, 15.0, 20.0);
    check_clamp(&unit_of(35, 3), &unit_of(34, 3), &unit_of(21, 3), 10.0, 15.0, 20.0);
    check_clamp(&unit_of(35, 3), &unit_of(34, 3), &unit_of(25, 3), 10.0, 15.0, 20.0);
    check_clamp(&unit_of(35, 3), &unit_of(34, 3), &unit_of(33, 3), 10.0, 15.0, 20.0);
    check_clamp(&unit_of(35, 3), &unit_of(34, 3), &unit_of(35, 3), 10.0, 15.0, 20.0);
    check_clamp(&unit_of(35, 3), &unit_of(0, 3), &unit_of(34, 3), 10.0, 15.0, 20.0);
    check_clamp(&unit_of(35, 3), &unit_of(0, 3), &unit_of(0, 3), 10.0, 15.0, 20.0);
    check_clamp(&unit_of(35, 3), &unit_of(0, 3), &unit_of(2, 3), 10.0, 15.0, 20.0);
    check_clamp(&unit_of(35, 3), &unit_of(0, 3), &unit_of(7, 3), 10.0, 15.0, 20.0);
    check_clamp(&unit_of(35, 3), &unit_of(0, 3), &unit_of(21, 3), 10.0, 15.0, 20.0);
    check_clamp(&unit_of(35, 3), &unit_of(0, 3), &unit_of(25, 3), 10.0, 15.0, 20.0);
    check_clamp(&unit_of(35, 3), &unit_of(0, 3), &unit_of(33, 3), 10.0, 15.0, 20.0);
    check_clamp(&unit_of(35, 3), &unit_of(0, 3), &unit_of(35, 3), 10.0, 15.0, 20.0);
    check_clamp(&unit_of(35, 3), &unit_of(2, 3), &unit_of(34, 3), 10.0, 15.0, 20.0);
    check_clamp(&unit_of(35, 3), &unit_of(2, 3), &unit_of(0, 3), 10.0, 15.0, 20.0);
    check_clamp(&unit_of(35, 3), &unit_of(2, 3), &unit_of(2, 3), 10.0, 15.0, 20.0);
    check_clamp(&unit_of(35, 3), &unit_of(2, 3), &unit_of(7, 3), 10.0, 15.0, 20.0);
    check_clamp(&unit_of(35, 3), &unit_of(2, 3), &unit_of(21, 3), 10.0, 15.0, 20.0);
    check_clamp(&unit_of(35, 3), &unit_of(2, 3), &unit_of(25, 3), 10.0, 15.0, 20.0);
    check_clamp(&unit_of(35, 3), &unit_of(2, 3), &unit_of(33, 3), 10.0, 15.0, 20.0);
    check_clamp(&unit_of(35, 3), &unit_of(2, 3), &unit_of(35, 3), 10.0, 15.0, 20.0);
    check_clamp(&unit_of(35, 3), &unit_of(7, 3), &unit_of(34, 3), 10.0, 15.0, 20.0);
    check_clamp(&unit_of(35, 3), &unit_of(7, 3), &unit_of(0, 3), 10.0, 15.0, 20.0);
    check_clamp(&unit_of(35, 3), &unit_of(7, 3), &unit_of(2, 3), 10.0, 15.0, 20.0);
    check_clamp(&unit_of(35, 3), &unit_of(7, 3), &unit_of(7, 3), 10.0, 15.0, 20.0);
    check_clamp(&unit_of(35, 3), &unit_of(7, 3), &unit_of(21, 3), 10.0, 15.0, 20.0);
    check_clamp(&unit_of(35, 3), &unit_of(7, 3), &unit_of(25, 3), 10.0, 15.0, 20.0);
    check_clamp(&unit_of(35, 3), &unit_of(7, 3), &unit_of(33, 3), 10.0, 15.0, 20.0);
    check_clamp(&unit_of(35, 3), &unit_of(7, 3), &unit_of(35, 3), 10.0, 15.0, 20.0);
    check_clamp(&unit_of(35, 3), &unit_of(21, 3), &unit_of(34, 3), 10.0, 15.0, 20.0);
    check_clamp(&unit_of(35, 3), &unit_of(21, 3), &unit_of(0, 3), 10.0, 15.0, 20.0);
    check_clamp(&unit_of(35, 3), &unit_of(21, 3), &unit_of(2, 3), 10.0, 15.0, 20.0);
    check_clamp(&unit_of(35, 3), &unit_of(21, 3), &unit_of(7, 3), 10.0, 15.0, 20.0);
    check_clamp(&unit_of(35, 3), &unit_of(21, 3), &unit_of(21, 3), 10.0, 15.0, 20.0);
    check_clamp(&unit_of(35, 3), &unit_of(21, 3), &unit_of(25, 3), 10.0, 15.0, 20.0);
    check_clamp(&unit_of(35, 3), &unit_of(21, 3), &unit_of(33, 3), 10.0, 15.0, 20.0);
    check_clamp(&unit_of(35, 3), &unit_of(21, 3), &unit_of(35, 3), 10.0, 15.0, 20.0);
    check_clamp(&unit_of(35, 3), &unit_of(25, 3), &unit_of(34, 3), 10.0, 15.0, 20.0);
    check_clamp(&unit_of(35, 3), &unit_of(25, 3), &unit_of(0, 3), 10.0, 15.0, 20.0);
    check_clamp(&unit_of(35, 3), &unit_of(25, 3), &unit_of(2, 3), 10.0, 15.0, 20.0);
    check_clamp(&unit_of(35, 3), &unit_of(25, 3), &unit_of(7, 3), 10.0, 15.0, 20.0);
    check_clamp(&unit_of(35, 3), &unit_of(25, 3), &unit_of(21, 3), 10.0, 15.0, 20.0);
    check_clamp(&unit_of(35, 3), &unit_of(25, 3), &unit_of(25, 3), 10.0, 15.0, 20.0);
    check_clamp(&unit_of(35, 3), &unit_of(25, 3), &unit_of(33, 3), 10.0, 15.0, 20.0);
    check_clamp(&unit_of(35, 3), &unit_of(25, 3), &unit_of(35, 3), 10.0, 15.0, 20.0);
    check_clamp(&unit_of(35, 3), &unit_of(33, 3), &unit_of(34, 3), 10.0, 15.0, 20.0);
    check_clamp(&unit_of(35, 3), &unit_of(33, 3), &unit_of(0, 3), 10.0, 15.0, 20.0);
    check_clamp(&unit_of(35, 3), &unit_of(33, 3), &unit_of(2, 3), 10.0, 15.0, 20.0);
    check_clamp(&unit_of(35, 3), &unit_of(33, 3), &unit_of(7, 3), 10.0, 15.0, 20.0);
    check_clamp(&unit_of(35, 3), &unit_of(33, 3), &unit_of(21, 3), 10.0, 15.0, 20.0);
    check_clamp(&unit_of(35, 3), &unit_of(33, 3), &unit_of(25, 3), 10.0, 15.0, 20.0);
    check_clamp(&unit_of(35, 3), &unit_of(33, 3), &unit_of(33, 3), 10.0, 15.0, 20.0);
    check_clamp(&unit_of(35, 3), &unit_of(33, 3), &unit_of(35, 3), 10.0, 15.0, 20.0);
    check_clamp(&unit_of(35, 3), &unit_of(35, 3), &unit_of(34, 3), 10.0, 15.0, 20.0);
    check_clamp(&unit_of(35, 3), &unit_of(35, 3), &unit_of(0, 3), 10.0, 15.0, 20.0);
    check_clamp(&unit_of(35, 3), &unit_of(35, 3), &unit_of(2, 3), 10.0, 15.0, 20.0);
    check_clamp(&unit_of(35, 3), &unit_of(35, 3), &unit_of(7, 3), 10.0, 15.0, 20.0);
    check_clamp(&unit_of(35, 3), &unit_of(35, 3), &unit_of(21, 3), 10.0, 15.0, 20.0);
    check_clamp(&unit_of(35, 3), &unit_of(35, 3), &unit_of(25, 3), 10.0, 15.0, 20.0);
    check_clamp(&unit_of(35, 3), &unit_of(35, 3), &unit_of(33, 3), 10.0, 15.0, 20.0);
    check_clamp(&unit_of(35, 3), &unit_of(35, 3), &unit_of(35, 3), 10.0, 15.0, 20.0);
    kani::cover!(true);
}

// ---------------------------------------------------------------------------
// operate_internal (C16 mech 1): folding of compatible numbers, and sign
// normalisation of a negative right operand in an unsimplified `+`/`-`
// ---------------------------------------------------------------------------

fn conversion_factor_contract(from: &Unit, to: &Unit) -> Option<f64> {
    if from == to {
        return Some(1.0);
    }
    crate::unit::verif_kani_support::table_model(to, from)
}

fn signed(op: BinaryOp, n: f64) -> f64 {
    if op == BinaryOp::Plus {
        n
    } else {
        -n
    }
}

/// `l op r` with units that cannot be folded: the emitted operation must denote the same
/// quantity (`lhs` unchanged, `op' n'` equal to `op n` as a signed term) with a non-negative `n'`
fn check_unfolded(op: BinaryOp, l: f64, lu: Unit, r: f64, ru: Unit) {
    let opts = options_for_kani();
    let res = SassCalculation::operate_internal(op, arg(l, &lu), arg(r, &ru), false, true, &opts, span_of(0, 1));
    match &res {
        Ok(CalculationArg::Operation { lhs, op: op2, rhs }) => {
            assert!(is_number_arg(lhs, l, &lu), "C16/K/operate_internal: left operand changed");
            assert!(*op2 == BinaryOp::Plus || *op2 == BinaryOp::Minus, "C16/K/operate_internal: operator class changed");
            match &**rhs {
                CalculationArg::Number(n) => {
                    assert!(n.unit == ru, "C16/K/operate_internal: right unit changed");
                    assert!(signed(*op2, n.num.0) == signed(op, r), "C16/K/operate_internal: sign normalisation changed the value");
                    assert!(!(n.num.0 < 0.0), "C16/K/operate_internal: right operand still negative");
                }
                _ => assert!(false, "C16/K/operate_internal: right operand is no longer a number"),
            }
        }
        _ => assert!(false, "C16/K/operate_internal: incompatible units must stay an operation"),
    }
    std::mem::forget(res);
}

fn check_folded(op: BinaryOp, in_min_or_max: bool, l: f64, lu: Unit, r: f64, ru: Unit, want: f64, want_unit: Unit) {
    let opts = options_for_kani();
    let res = SassCalculation::operate_internal(op, arg(l, &lu), arg(r, &ru), in_min_or_max, true, &opts, span_of(0, 1));
    match &res {
        Ok(CalculationArg::Number(n)) => {
            assert!(n.unit == want_unit, "C16/K/operate_internal: unit of the folded number");
            assert!((n.num.0 - want).abs() <= 1e-12 * want.abs(), "C16/K/operate_internal: folded value is not what ordinary arithmetic gives");
        }
        _ => assert!(false, "C16/K/operate_internal: compatible numbers must fold to a number"),
    }
    std::mem::forget(res);
}

//@ ob: id=C16/K/operate_internal_sign_normalisation kind=K-bounded fns=SassCalculation::operate_internal bound="1% op (+-2px | +-0.5px), op in {+,-}"
//@ desc: an unsimplifiable `a + b` / `a - b` keeps the left operand, and the emitted `op' n'` equals `op n` as a signed term with n' >= 0 (a - -2px is a + 2px, a + -2px is a - 2px, positive operands unchanged)
#[kani::proof]
#[kani::unwind(5)]
#[kani::stub(crate::value::Number::convert, convert_contract)]
#[kani::stub(crate::value::number::epsilon, epsilon_const)]
#[kani::stub(crate::value::number::inverse_epsilon, inverse_epsilon_const)]
#[kani::stub(crate::value::conversion_factor, conversion_factor_contract)]
#[kani::stub(SassCalculation::verify_compatible_numbers, vcn_stub)]
#[kani::stub(alloc::fmt::format, format_stub)]
fn c16_operate_internal_sign_normalisation() {
    check_unfolded(BinaryOp::Minus, 1.0, Unit::Percent, -2.0, Unit::Px);
    check_unfolded(BinaryOp::Plus, 1.0, Unit::Percent, -2.0, Unit::Px);
    check_unfolded(BinaryOp::Minus, 1.0, Unit::Percent, 2.0, Unit::Px);
    check_unfolded(BinaryOp::Plus, 1.0, Unit::Percent, 0.5, Unit::Em);
    check_unfolded(BinaryOp::Minus, 100.0, Unit::Percent, -0.5, Unit::Em);
    kani::cover!(true);
}

//@ ob: id=C16/K/operate_internal_folds kind=K-bounded fns=SassCalculation::operate_internal,SassNumber::add,SassNumber::sub,SassNumber::mul,SassNumber::div bound="6 concrete operand pairs with convertible units"
//@ desc: operands with known, mutually convertible units are replaced by the number ordinary arithmetic gives (1in - 48px = 0.5in, 1px + 2px = 3px, 2px * 3 = 6px, 6px / 2 = 3px, 96px / 1in = 1); a unitless operand folds with a length only inside min()/max()
#[kani::proof]
#[kani::unwind(5)]
#[kani::stub(crate::value::Number::convert, convert_contract)]
#[kani::stub(crate::value::number::epsilon, epsilon_const)]
#[kani::stub(crate::value::number::inverse_epsilon, inverse_epsilon_const)]
#[kani::stub(crate::value::conversion_factor, conversion_factor_contract)]
#[kani::stub(SassCalculation::verify_compatible_numbers, vcn_stub)]
#[kani::stub(alloc::fmt::format, format_stub)]
fn c16_operate_internal_folds() {
    check_folded(BinaryOp::Plus, false, 1.0, Unit::Px, 2.0, Unit::Px, 3.0, Unit::Px);
    check_folded(BinaryOp::Minus, false, 1.0, Unit::In, 48.0, Unit::Px, 0.5, Unit::In);
    check_folded(BinaryOp::Mul, false, 2.0, Unit::Px, 3.0, Unit::None, 6.0, Unit::Px);
    check_folded(BinaryOp::Div, false, 6.0, Unit::Px, 2.0, Unit::None, 3.0, Unit::Px);
    check_folded(BinaryOp::Plus, true, 1.0, Unit::None, 2.0, Unit::Px, 3.0, Unit::Px);
    check_unfolded(BinaryOp::Plus, 1.0, Unit::None, 2.0, Unit::Px);
    kani::cover!(true);
}

// ---------------------------------------------------------------------------
// parenthesisation of the right operand when printing (C16 mech 3)
// ---------------------------------------------------------------------------

fn apply(op: BinaryOp, x: f64, y: f64) -> f64 {
    match op {
        BinaryOp::Plus => x + y,
        BinaryOp::Minus => x - y,
        BinaryOp::Mul => x * y,
        _ => x / y,
    }
}

/// value of the text `a outer b right c` without parentheses, under CSS precedence
/// (`*`,`/` bind tighter than `+`,`-`) and left associativity
fn eval_unparenthesized(outer: BinaryOp, right: BinaryOp, a: f64, b: f64, c: f64) -> f64 {
    if right.precedence() > outer.precedence() {
        apply(outer, a, apply(right, b, c))
    } else {
        apply(right, apply(outer, a, b), c)
    }
}

fn arith_op(i: u8) -> BinaryOp {
    match i {
        0 => BinaryOp::Plus,
        1 => BinaryOp::Minus,
        2 => BinaryOp::Mul,
        _ => BinaryOp::Div,
    }
}

//@ ob: id=C16/K/parenthesize_rhs kind=K-full fns=CalculationArg::parenthesize_calculation_rhs
//@ desc: for all 16 pairs of arithmetic operators: whenever the printer omits the parentheses around a right operand `b right c`, the unparenthesized text `a outer b right c` (CSS precedence, left associative) has the same value as `a outer (b right c)`; checked on operand triples from {8,4,2,1} (all four operations exact in f64, every re-association distinguishable)
#[kani::proof]
#[kani::unwind(6)]
fn c16_parenthesize_rhs() {
    let vals = [8.0, 4.0, 2.0, 1.0];
    let mut o = 0u8;
    while o < 4 {
        let mut r = 0u8;
        while r < 4 {
            let outer = arith_op(o);
            let right = arith_op(r);
            if !CalculationArg::parenthesize_calculation_rhs(outer, right) {
                let mut i = 0;
                while i < 4 {
                    let mut j = 0;
                    while j < 4 {
                        let mut k = 0;
                        while k < 4 {
                            let (a, b, c) = (vals[i], vals[j], vals[k]);
                            let nested = apply(outer, a, apply(right, b, c));
                            let flat = eval_unparenthesized(outer, right, a, b, c);
                            assert!(nested == flat, "C16/K/parenthesize_rhs: dropping the parentheses changes the value");
                            k += 1;
                        }
                        j += 1;
                    }
                    i += 1;
                }
            }
            r += 1;
        }
        o += 1;
    }
    kani::cover!(true);
}
