//@ target: crates/compiler/src/options.rs
//@ module: verif_kani_support
//@ props: *
//! `Options::default()` builds a `HashMap` whose `RandomState::new()` calls
//! getrandom (a foreign function Kani cannot execute). The harnesses need an
//! `Options` value only to satisfy signatures; the map gets fixed hash keys.
pub(crate) fn options_for_kani<'a>() -> Options<'a> {
    let rs: std::collections::hash_map::RandomState = unsafe { std::mem::transmute((1u64, 2u64)) };
    Options {
        fs: &StdFs,
        logger: &StdLogger,
        style: OutputStyle::Expanded,
        load_paths: Vec::new(),
        allows_charset: true,
        unicode_error_messages: true,
        quiet: false,
        input_syntax: None,
        custom_fns: HashMap::with_hasher(rs),
    }
}
