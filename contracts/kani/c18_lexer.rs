//@ target: crates/compiler/src/lexer.rs
//@ module: verif_kani_c18
//@ props: C18 C19
//! Newline normalisation in `TokenLexer::next` (C18 mech 2).
use super::verif_kani_support::*;

/// the statement's normalisation: CRLF, CR and form feed become LF
fn normalized(s: &str) -> Vec<char> {
    let b: Vec<char> = s.chars().collect();
    let mut out = Vec::new();
    let mut i = 0;
    while i < b.len() {
        let c = b[i];
        if c == '\r' {
            if i + 1 < b.len() && b[i + 1] == '\n' {
                i += 1;
            }
            out.push('\n');
        } else if c == '\x0C' {
            out.push('\n');
        } else {
            out.push(c);
        }
        i += 1;
    }
    out
}

fn check_newlines(from: usize, to: usize) {
    let mut n = from;
    while n < to {
        let s = SMALL_STRINGS[n];
        let toks: Vec<Token> = TokenLexer::new(s.chars().peekable()).collect();
        let want = normalized(s);
        assert!(toks.len() == want.len(), "C18/K/token_lexer_newlines: token count");
        let mut i = 0;
        let mut last_end: u32 = 0;
        while i < toks.len() {
            let t = toks[i];
            assert!(t.kind != '\r' && t.kind != '\x0C', "C18/K/token_lexer_newlines: no CR/FF token");
            assert!(t.kind == want[i], "C18/K/token_lexer_newlines: kinds equal the normalised text");
            assert!(token_pos(&t) >= last_end, "C18/K/token_lexer_newlines: positions increase");
            assert!(token_pos(&t) as usize + t.kind.len_utf8() <= s.len(), "C18/K/token_lexer_newlines: token inside the text");
            let orig = s.as_bytes()[token_pos(&t) as usize];
            if t.kind == '\n' {
                assert!(orig == b'\n' || orig == b'\r' || orig == 0x0C, "C18/K/token_lexer_newlines: newline token points at a newline spelling");
            } else if t.kind == 'a' {
                assert!(orig == b'a', "C18/K/token_lexer_newlines: offset of ascii char");
            } else {
                assert!(orig == 0xC3, "C18/K/token_lexer_newlines: offset of multi-byte char");
            }
            last_end = token_pos(&t) + t.kind.len_utf8() as u32;
            i += 1;
        }
        n += 1;
    }
    kani::cover!(true);
}

//@ ob: id=C18/K/token_lexer_newlines_0 kind=K-bounded fns=TokenLexer::next,TokenLexer::new also=C19 bound="strings 0..26 of the 156 strings of <= 3 chars over {a,\n,\r,\f,é}"
//@ desc: lexing never yields a `\r` or form-feed token; the token kinds equal the text with CRLF/CR/FF replaced by LF; positions are strictly increasing byte offsets into the original text with pos + len_utf8 <= text.len()
#[kani::proof]
#[kani::unwind(28)]
fn c18_token_lexer_newlines_0() {
    check_newlines(0, 26);
}

//@ ob: id=C18/K/token_lexer_newlines_1 kind=K-bounded fns=TokenLexer::next,TokenLexer::new also=C19 bound="strings 26..52 of the 156 strings of <= 3 chars over {a,\n,\r,\f,é}"
//@ desc: lexing never yields a `\r` or form-feed token; the token kinds equal the text with CRLF/CR/FF replaced by LF; positions are strictly increasing byte offsets into the original text with pos + len_utf8 <= text.len()
#[kani::proof]
#[kani::unwind(28)]
fn c18_token_lexer_newlines_1() {
    check_newlines(26, 52);
}

//@ ob: id=C18/K/token_lexer_newlines_2 kind=K-bounded fns=TokenLexer::next,TokenLexer::new also=C19 bound="strings 52..78 of the 156 strings of <= 3 chars over {a,\n,\r,\f,é}"
//@ desc: lexing never yields a `\r` or form-feed token; the token kinds equal the text with CRLF/CR/FF replaced by LF; positions are strictly increasing byte offsets into the original text with pos + len_utf8 <= text.len()
#[kani::proof]
#[kani::unwind(28)]
fn c18_token_lexer_newlines_2() {
    check_newlines(52, 78);
}

//@ ob: id=C18/K/token_lexer_newlines_3 kind=K-bounded fns=TokenLexer::next,TokenLexer::new also=C19 bound="strings 78..104 of the 156 strings of <= 3 chars over {a,\n,\r,\f,é}"
//@ desc: lexing never yields a `\r` or form-feed token; the token kinds equal the text with CRLF/CR/FF replaced by LF; positions are strictly increasing byte offsets into the original text with pos + len_utf8 <= text.len()
#[kani::proof]
#[kani::unwind(28)]
fn c18_token_lexer_newlines_3() {
    check_newlines(78, 104);
}

//@ ob: id=C18/K/token_lexer_newlines_4 kind=K-bounded fns=TokenLexer::next,TokenLexer::new also=C19 bound="strings 104..130 of the 156 strings of <= 3 chars over {a,\n,\r,\f,é}"
//@ desc: lexing never yields a `\r` or form-feed token; the token kinds equal the text with CRLF/CR/FF replaced by LF; positions are strictly increasing byte offsets into the original text with pos + len_utf8 <= text.len()
#[kani::proof]
#[kani::unwind(28)]
fn c18_token_lexer_newlines_4() {
    check_newlines(104, 130);
}

//@ ob: id=C18/K/token_lexer_newlines_5 kind=K-bounded fns=TokenLexer::next,TokenLexer::new also=C19 bound="strings 130..156 of the 156 strings of <= 3 chars over {a,\n,\r,\f,é}"
//@ desc: lexing never yields a `\r` or form-feed token; the token kinds equal the text with CRLF/CR/FF replaced by LF; positions are strictly increasing byte offsets into the original text with pos + len_utf8 <= text.len()
#[kani::proof]
#[kani::unwind(28)]
fn c18_token_lexer_newlines_5() {
    check_newlines(130, 156);
}
