//@ target: crates/compiler/src/value/mod.rs
//@ module: verif_kani_support
//@ props: *
//! Re-exports: `value::number` is a private module, harnesses outside `value/`
//! reach its support items through here.
pub(crate) use super::number::verif_kani_support::{convert_contract, convert_factor_spec, epsilon_const, inverse_epsilon_const};
