//@ target: crates/compiler/src/ast/media.rs
//@ module: verif_kani_c17
//@ props: C17
//! `MediaQuery::merge` against the logical intersection (C17 mech 1). Queries are
//! concrete (one pair per harness: symbolic strings exhaust CBMC, DESIGN E-K8/E-K10);
//! the media environment - media type and the truth value of each feature
//! condition - is symbolic, which is the property's own quantifier.

#[derive(Clone, Copy)]
pub(crate) struct Env {
    /// 0 = screen, 1 = print, 2 = some other type
    ty: u8,
    a: bool,
    b: bool,
    c: bool,
}

pub(crate) fn any_env() -> Env {
    let ty: u8 = kani::any();
    kani::assume(ty < 3);
    Env { ty, a: kani::any(), b: kani::any(), c: kani::any() }
}

fn cond_holds(c: &str, e: Env) -> bool {
    match c {
        "(a)" => e.a,
        "(b)" => e.b,
        "(c)" => e.c,
        _ => panic!("unknown condition in harness"),
    }
}

fn type_matches(t: &str, e: Env) -> bool {
    let t = t.to_ascii_lowercase();
    match t.as_str() {
        "all" => true,
        "screen" => e.ty == 0,
        "print" => e.ty == 1,
        _ => panic!("unknown media type in harness"),
    }
}

/// Media Queries semantics of one query in environment `e`.
pub(crate) fn sat(q: &MediaQuery, e: Env) -> bool {
    let mut all = true;
    let mut i = 0;
    while i < q.conditions.len() {
        all = all && cond_holds(&q.conditions[i], e);
        i += 1;
    }
    let base = match &q.media_type {
        None => all,
        Some(t) => type_matches(t, e) && all,
    };
    match q.modifier.as_ref().map(|m| m.to_ascii_lowercase()) {
        Some(m) if m == "not" => !base,
        _ => base,
    }
}

pub(crate) fn mq(modifier: Option<&str>, ty: Option<&str>, conds: &[&str]) -> MediaQuery {
    let mut v = Vec::new();
    let mut i = 0;
    while i < conds.len() {
        v.push(conds[i].to_owned());
        i += 1;
    }
    match ty {
        None => MediaQuery::condition(v, true),
        Some(t) => MediaQuery::media_type(Some(t.to_owned()), modifier.map(|m| m.to_owned()), Some(v)),
    }
}

pub(crate) const ANY: u8 = 0;
pub(crate) const SUCCESS: u8 = 1;
pub(crate) const EMPTY: u8 = 2;
pub(crate) const UNREPRESENTABLE: u8 = 3;

/// The contract of `merge` for one concrete pair, in both argument orders. `expect`
/// is the outcome class the statement requires for this pair: SUCCESS where Sass merges the
/// two queries into one, EMPTY where the intersection is empty (the inner rule must be
/// dropped), ANY otherwise - "kept nested" is never demanded, because an implementation
/// that finds a correct single query for such a pair still satisfies the property (the
/// semantic clauses above already forbid a wrong Success or Empty there).
pub(crate) fn check_merge(q1: &MediaQuery, q2: &MediaQuery, expect: u8) {
    check_merge_text(q1, q2, expect, false)
}

/// `keeps_only`: one of the inputs carries the `only` modifier (which has no effect on
/// matching, so the semantic clauses cannot see it): the statement requires query text
/// to be preserved, so a merged query must still carry it.
pub(crate) fn check_merge_text(q1: &MediaQuery, q2: &MediaQuery, expect: u8, keeps_only: bool) {
    let e = any_env();
    let both = sat(q1, e) && sat(q2, e);
    let mut order = 0;
    while order < 2 {
        let r = if order == 0 { q1.merge(q2) } else { q2.merge(q1) };
        match &r {
            MediaQueryMergeResult::Success(m) => {
                assert!(sat(m, e) == both, "C17/K/merge: merged query is not the intersection of the two queries");
                assert!(m.conjunction, "C17/K/merge: merged query is a conjunction");
                if keeps_only {
                    assert!(m.modifier.as_ref().map_or(false, |x| x.to_ascii_lowercase() == "only"), "C17/K/merge: the `only` modifier was lost");
                }
            }
            MediaQueryMergeResult::Empty => {
                assert!(!both, "C17/K/merge: Empty although some environment satisfies both queries");
            }
            MediaQueryMergeResult::Unrepresentable => {}
        }
        let class = match &r {
            MediaQueryMergeResult::Success(_) => SUCCESS,
            MediaQueryMergeResult::Empty => EMPTY,
            MediaQueryMergeResult::Unrepresentable => UNREPRESENTABLE,
        };
        assert!(expect == ANY || class == expect, "C17/K/merge: wrong outcome class (merged / dropped / kept nested) for this pair");
        order += 1;
    }
}

//@ ob: id=C17/K/merge_non_conjunction kind=K-bounded fns=MediaQuery::merge bound="pair [(a) or-list] x [screen]"
//@ desc: a query that is not a conjunction is never merged (Unrepresentable keeps the rules nested)
#[kani::proof]
#[kani::unwind(12)]
fn c17_merge_non_conjunction() {
    let mut v = Vec::new();
    v.push("(a)".to_owned());
    let q1 = MediaQuery::condition(v, false);
    let q2 = mq(None, Some("screen"), &[]);
    assert!(matches!(q1.merge(&q2), MediaQueryMergeResult::Unrepresentable), "C17/K/merge_non_conjunction");
    assert!(matches!(q2.merge(&q1), MediaQueryMergeResult::Unrepresentable), "C17/K/merge_non_conjunction: reversed");
    kani::cover!(true);
}
