//@ target: crates/compiler/src/value/mod.rs
//@ module: verif_kani_c09
//@ props: C09
//! `==` / `!=` on the real `Value::eq` / `Value::not_equals` (C09 mech 1, 2).
//! Values are kept on the stack and never dropped: `Value`'s drop glue reaches
//! `HashMap`'s (SassFunction -> Environment -> ExtensionStore) on which
//! kani-compiler ICEs, and heap-stored `Value`s (non-empty lists, map entries) make
//! CBMC explore the recursive `Value::eq` for every variant (DESIGN E-K7, E-K15).
use super::verif_kani_support::{convert_contract, convert_factor_spec, epsilon_const, inverse_epsilon_const};
use crate::unit::verif_kani_support::{any_simple_unit, IDX_NONE};
use std::mem::ManuallyDrop;

fn dim(n: f64, u: Unit) -> ManuallyDrop<Value> {
    ManuallyDrop::new(Value::Dimension(SassNumber { num: Number(n), unit: u, as_slash: None }))
}

//@ ob: id=C09/K/ne_is_not_eq_dimensions kind=K-contract fns=Value::eq,Value::not_equals,SassNumber::eq,Number::convert
//@ desc: on two numbers, for every pair of simple units and magnitudes {equal, different, NaN}: `!=` is exactly the negation of `==`, and neither violates Number::convert.requires
#[kani::proof]
#[kani::unwind(1)]
#[kani::stub(crate::value::number::Number::convert, convert_contract)]
#[kani::stub(crate::value::number::epsilon, epsilon_const)]
#[kani::stub(crate::value::number::inverse_epsilon, inverse_epsilon_const)]
fn c09_ne_is_not_eq_dimensions() {
    let (_ia, a) = any_simple_unit();
    let (_ib, b) = any_simple_unit();
    let sel: u8 = kani::any();
    kani::assume(sel < 4);
    let (m1, m2) = match sel {
        0 => (96.0, 96.0),
        1 => (1.0, 2.0),
        2 => (f64::NAN, 1.0),
        _ => (1.0, f64::NAN),
    };
    let x = dim(m1, a);
    let y = dim(m2, b);
    let eq = *x == *y;
    let ne = x.not_equals(&y);
    assert!(ne == !eq, "C09/K/ne_is_not_eq_dimensions");
    kani::cover!(eq);
    kani::cover!(!eq && sel == 0);
}

//@ ob: id=C09/K/eq_dimensions_symmetric kind=K-contract fns=Value::eq,SassNumber::eq,Number::convert
//@ desc: a number equals the same quantity expressed in any convertible unit, in both argument orders (x == convert(x) and convert(x) == x), and a number is equal to itself (reflexive) for every simple unit
#[kani::proof]
#[kani::unwind(1)]
#[kani::stub(crate::value::number::Number::convert, convert_contract)]
#[kani::stub(crate::value::number::epsilon, epsilon_const)]
#[kani::stub(crate::value::number::inverse_epsilon, inverse_epsilon_const)]
fn c09_eq_dimensions_symmetric() {
    let (ia, a) = any_simple_unit();
    let (ib, b) = any_simple_unit();
    kani::assume(a.comparable(&b) && (ia == IDX_NONE) == (ib == IDX_NONE));
    // 96 `a` expressed in unit `b`
    let f = convert_factor_spec(&a, &b).unwrap();
    let x = dim(96.0, a.clone());
    let y = dim(96.0 * f, b.clone());
    assert!(*x == *y, "C09/K/eq_dimensions_symmetric: x == x converted");
    assert!(*y == *x, "C09/K/eq_dimensions_symmetric: x converted == x");
    let x2 = dim(96.0, a);
    assert!(*x == *x2, "C09/K/eq_dimensions_symmetric: reflexive");
    kani::cover!(ia != ib);
}

fn small_value(i: u8) -> ManuallyDrop<Value> {
    use crate::common::{Brackets, ListSeparator, QuoteKind};
    ManuallyDrop::new(match i {
        0 => Value::Null,
        1 => Value::True,
        2 => Value::False,
        3 => Value::Dimension(SassNumber { num: Number(1.0), unit: Unit::None, as_slash: None }),
        4 => Value::Dimension(SassNumber { num: Number(1.0), unit: Unit::Px, as_slash: None }),
        5 => Value::String("a".to_owned(), QuoteKind::Quoted),
        6 => Value::String("a".to_owned(), QuoteKind::None),
        7 => Value::String("b".to_owned(), QuoteKind::None),
        8 => Value::List(Vec::new(), ListSeparator::Comma, Brackets::None),
        9 => Value::List(Vec::new(), ListSeparator::Space, Brackets::None),
        10 => Value::List(Vec::new(), ListSeparator::Comma, Brackets::Bracketed),
        11 => Value::ArgList(ArgList::new(Vec::new(), std::rc::Rc::new(std::cell::Cell::new(false)), std::collections::BTreeMap::new(), ListSeparator::Comma)),
        _ => Value::Map(SassMap::new()),
    })
}
const N_SMALL_VALUES: u8 = 13;

fn check_pair(i: u8, j: u8) {
    let x = small_value(i);
    let y = small_value(j);
    let xy = *x == *y;
    let yx = *y == *x;
    assert!(xy == yx, "C09/K/eq_small_values: == is symmetric");
    assert!(x.not_equals(&y) == !xy, "C09/K/eq_small_values: != is the negation of ==");
    if i == j {
        assert!(xy, "C09/K/eq_small_values: == is reflexive");
    }
    // quote-insensitive strings
    if (i == 5 && j == 6) || (i == 6 && j == 5) {
        assert!(xy, "C09/K/eq_small_values: quoted and unquoted strings with the same text are equal");
    }
}

//@ ob: id=C09/K/eq_small_values_0 kind=K-bounded fns=Value::eq,Value::not_equals,ArgList::eq,SassMap::eq bound="left value #0 against the 13 stack values {null,true,false,1,1px,'a',a,b,(),space-(),[],arglist(),map()}"
//@ desc: on the small value universe: == is symmetric and reflexive, != is its negation, quoted and unquoted strings with the same text are equal
#[kani::proof]
#[kani::unwind(2)]
#[kani::stub(crate::value::number::Number::convert, convert_contract)]
#[kani::stub(crate::value::number::epsilon, epsilon_const)]
#[kani::stub(crate::value::number::inverse_epsilon, inverse_epsilon_const)]
fn c09_eq_small_values_0() {
    check_pair(0, 0);
    check_pair(0, 1);
    check_pair(0, 2);
    check_pair(0, 3);
    check_pair(0, 4);
    check_pair(0, 5);
    check_pair(0, 6);
    check_pair(0, 7);
    check_pair(0, 8);
    check_pair(0, 9);
    check_pair(0, 10);
    check_pair(0, 11);
    check_pair(0, 12);
    kani::cover!(true);
}

//@ ob: id=C09/K/eq_small_values_1 kind=K-bounded fns=Value::eq,Value::not_equals,ArgList::eq,SassMap::eq bound="left value #1 against the 13 stack values {null,true,false,1,1px,'a',a,b,(),space-(),[],arglist(),map()}"
//@ desc: on the small value universe: == is symmetric and reflexive, != is its negation, quoted and unquoted strings with the same text are equal
#[kani::proof]
#[kani::unwind(2)]
#[kani::stub(crate::value::number::Number::convert, convert_contract)]
#[kani::stub(crate::value::number::epsilon, epsilon_const)]
#[kani::stub(crate::value::number::inverse_epsilon, inverse_epsilon_const)]
fn c09_eq_small_values_1() {
    check_pair(1, 0);
    check_pair(1, 1);
    check_pair(1, 2);
    check_pair(1, 3);
    check_pair(1, 4);
    check_pair(1, 5);
    check_pair(1, 6);
    check_pair(1, 7);
    check_pair(1, 8);
    check_pair(1, 9);
    check_pair(1, 10);
    check_pair(1, 11);
    check_pair(1, 12);
    kani::cover!(true);
}

//@ ob: id=C09/K/eq_small_values_2 kind=K-bounded fns=Value::eq,Value::not_equals,ArgList::eq,SassMap::eq bound="left value #2 against the 13 stack values {null,true,false,1,1px,'a',a,b,(),space-(),[],arglist(),map()}"
//@ desc: on the small value universe: == is symmetric and reflexive, != is its negation, quoted and unquoted strings with the same text are equal
#[kani::proof]
#[kani::unwind(2)]
#[kani::stub(crate::value::number::Number::convert, convert_contract)]
#[kani::stub(crate::value::number::epsilon, epsilon_const)]
#[kani::stub(crate::value::number::inverse_epsilon, inverse_epsilon_const)]
fn c09_eq_small_values_2() {
    check_pair(2, 0);
    check_pair(2, 1);
    check_pair(2, 2);
    check_pair(2, 3);
    check_pair(2, 4);
    check_pair(2, 5);
    check_pair(2, 6);
    check_pair(2, 7);
    check_pair(2, 8);
    check_pair(2, 9);
    check_pair(2, 10);
    check_pair(2, 11);
    check_pair(2, 12);
    kani::cover!(true);
}

//@ ob: id=C09/K/eq_small_values_3 kind=K-bounded fns=Value::eq,Value::not_equals,ArgList::eq,SassMap::eq bound="left value #3 against the 13 stack values {null,true,false,1,1px,'a',a,b,(),space-(),[],arglist(),map()}"
//@ desc: on the small value universe: == is symmetric and reflexive, != is its negation, quoted and unquoted strings with the same text are equal
#[kani::proof]
#[kani::unwind(2)]
#[kani::stub(crate::value::number::Number::convert, convert_contract)]
#[kani::stub(crate::value::number::epsilon, epsilon_const)]
#[kani::stub(crate::value::number::inverse_epsilon, inverse_epsilon_const)]
fn c09_eq_small_values_3() {
    check_pair(3, 0);
    check_pair(3, 1);
    check_pair(3, 2);
    check_pair(3, 3);
    check_pair(3, 4);
    check_pair(3, 5);
    check_pair(3, 6);
    check_pair(3, 7);
    check_pair(3, 8);
    check_pair(3, 9);
    check_pair(3, 10);
    check_pair(3, 11);
    check_pair(3, 12);
    kani::cover!(true);
}

//@ ob: id=C09/K/eq_small_values_4 kind=K-bounded fns=Value::eq,Value::not_equals,ArgList::eq,SassMap::eq bound="left value #4 against the 13 stack values {null,true,false,1,1px,'a',a,b,(),space-(),[],arglist(),map()}"
//@ desc: on the small value universe: == is symmetric and reflexive, != is its negation, quoted and unquoted strings with the same text are equal
#[kani::proof]
#[kani::unwind(2)]
#[kani::stub(crate::value::number::Number::convert, convert_contract)]
#[kani::stub(crate::value::number::epsilon, epsilon_const)]
#[kani::stub(crate::value::number::inverse_epsilon, inverse_epsilon_const)]
fn c09_eq_small_values_4() {
    check_pair(4, 0);
    check_pair(4, 1);
    check_pair(4, 2);
    check_pair(4, 3);
    check_pair(4, 4);
    check_pair(4, 5);
    check_pair(4, 6);
    check_pair(4, 7);
    check_pair(4, 8);
    check_pair(4, 9);
    check_pair(4, 10);
    check_pair(4, 11);
    check_pair(4, 12);
    kani::cover!(true);
}

//@ ob: id=C09/K/eq_small_values_5 kind=K-bounded fns=Value::eq,Value::not_equals,ArgList::eq,SassMap::eq bound="left value #5 against the 13 stack values {null,true,false,1,1px,'a',a,b,(),space-(),[],arglist(),map()}"
//@ desc: on the small value universe: == is symmetric and reflexive, != is its negation, quoted and unquoted strings with the same text are equal
#[kani::proof]
#[kani::unwind(2)]
#[kani::stub(crate::value::number::Number::convert, convert_contract)]
#[kani::stub(crate::value::number::epsilon, epsilon_const)]
#[kani::stub(crate::value::number::inverse_epsilon, inverse_epsilon_const)]
fn c09_eq_small_values_5() {
    check_pair(5, 0);
    check_pair(5, 1);
    check_pair(5, 2);
    check_pair(5, 3);
    check_pair(5, 4);
    check_pair(5, 5);
    check_pair(5, 6);
    check_pair(5, 7);
    check_pair(5, 8);
    check_pair(5, 9);
    check_pair(5, 10);
    check_pair(5, 11);
    check_pair(5, 12);
    kani::cover!(true);
}

//@ ob: id=C09/K/eq_small_values_6 kind=K-bounded fns=Value::eq,Value::not_equals,ArgList::eq,SassMap::eq bound="left value #6 against the 13 stack values {null,true,false,1,1px,'a',a,b,(),space-(),[],arglist(),map()}"
//@ desc: on the small value universe: == is symmetric and reflexive, != is its negation, quoted and unquoted strings with the same text are equal
#[kani::proof]
#[kani::unwind(2)]
#[kani::stub(crate::value::number::Number::convert, convert_contract)]
#[kani::stub(crate::value::number::epsilon, epsilon_const)]
#[kani::stub(crate::value::number::inverse_epsilon, inverse_epsilon_const)]
fn c09_eq_small_values_6() {
    check_pair(6, 0);
    check_pair(6, 1);
    check_pair(6, 2);
    check_pair(6, 3);
    check_pair(6, 4);
    check_pair(6, 5);
    check_pair(6, 6);
    check_pair(6, 7);
    check_pair(6, 8);
    check_pair(6, 9);
    check_pair(6, 10);
    check_pair(6, 11);
    check_pair(6, 12);
    kani::cover!(true);
}

//@ ob: id=C09/K/eq_small_values_7 kind=K-bounded fns=Value::eq,Value::not_equals,ArgList::eq,SassMap::eq bound="left value #7 against the 13 stack values {null,true,false,1,1px,'a',a,b,(),space-(),[],arglist(),map()}"
//@ desc: on the small value universe: == is symmetric and reflexive, != is its negation, quoted and unquoted strings with the same text are equal
#[kani::proof]
#[kani::unwind(2)]
#[kani::stub(crate::value::number::Number::convert, convert_contract)]
#[kani::stub(crate::value::number::epsilon, epsilon_const)]
#[kani::stub(crate::value::number::inverse_epsilon, inverse_epsilon_const)]
fn c09_eq_small_values_7() {
    check_pair(7, 0);
    check_pair(7, 1);
    check_pair(7, 2);
    check_pair(7, 3);
    check_pair(7, 4);
    check_pair(7, 5);
    check_pair(7, 6);
    check_pair(7, 7);
    check_pair(7, 8);
    check_pair(7, 9);
    check_pair(7, 10);
    check_pair(7, 11);
    check_pair(7, 12);
    kani::cover!(true);
}

//@ ob: id=C09/K/eq_small_values_8 kind=K-bounded fns=Value::eq,Value::not_equals,ArgList::eq,SassMap::eq bound="left value #8 against the 9 non-list stack values"
//@ desc: on the small value universe: == is symmetric and reflexive, != is its negation, quoted and unquoted strings with the same text are equal
#[kani::proof]
#[kani::unwind(1)]
#[kani::stub(crate::value::number::Number::convert, convert_contract)]
#[kani::stub(crate::value::number::epsilon, epsilon_const)]
#[kani::stub(crate::value::number::inverse_epsilon, inverse_epsilon_const)]
fn c09_eq_small_values_8() {
    check_pair(8, 0);
    check_pair(8, 1);
    check_pair(8, 2);
    check_pair(8, 3);
    check_pair(8, 4);
    check_pair(8, 5);
    check_pair(8, 6);
    check_pair(8, 7);
    check_pair(8, 12);
    kani::cover!(true);
}

//@ ob: id=C09/K/eq_small_values_9 kind=K-bounded fns=Value::eq,Value::not_equals,ArgList::eq,SassMap::eq bound="left value #9 against the 9 non-list stack values"
//@ desc: on the small value universe: == is symmetric and reflexive, != is its negation, quoted and unquoted strings with the same text are equal
#[kani::proof]
#[kani::unwind(1)]
#[kani::stub(crate::value::number::Number::convert, convert_contract)]
#[kani::stub(crate::value::number::epsilon, epsilon_const)]
#[kani::stub(crate::value::number::inverse_epsilon, inverse_epsilon_const)]
fn c09_eq_small_values_9() {
    check_pair(9, 0);
    check_pair(9, 1);
    check_pair(9, 2);
    check_pair(9, 3);
    check_pair(9, 4);
    check_pair(9, 5);
    check_pair(9, 6);
    check_pair(9, 7);
    check_pair(9, 12);
    kani::cover!(true);
}

//@ ob: id=C09/K/eq_small_values_10 kind=K-bounded fns=Value::eq,Value::not_equals,ArgList::eq,SassMap::eq bound="left value #10 against the 9 non-list stack values"
//@ desc: on the small value universe: == is symmetric and reflexive, != is its negation, quoted and unquoted strings with the same text are equal
#[kani::proof]
#[kani::unwind(1)]
#[kani::stub(crate::value::number::Number::convert, convert_contract)]
#[kani::stub(crate::value::number::epsilon, epsilon_const)]
#[kani::stub(crate::value::number::inverse_epsilon, inverse_epsilon_const)]
fn c09_eq_small_values_10() {
    check_pair(10, 0);
    check_pair(10, 1);
    check_pair(10, 2);
    check_pair(10, 3);
    check_pair(10, 4);
    check_pair(10, 5);
    check_pair(10, 6);
    check_pair(10, 7);
    check_pair(10, 12);
    kani::cover!(true);
}

//@ ob: id=C09/K/eq_small_values_11 kind=K-bounded fns=Value::eq,Value::not_equals,ArgList::eq,SassMap::eq bound="left value #11 against the 9 non-list stack values"
//@ desc: on the small value universe: == is symmetric and reflexive, != is its negation, quoted and unquoted strings with the same text are equal
#[kani::proof]
#[kani::unwind(1)]
#[kani::stub(crate::value::number::Number::convert, convert_contract)]
#[kani::stub(crate::value::number::epsilon, epsilon_const)]
#[kani::stub(crate::value::number::inverse_epsilon, inverse_epsilon_const)]
fn c09_eq_small_values_11() {
    check_pair(11, 0);
    check_pair(11, 1);
    check_pair(11, 2);
    check_pair(11, 3);
    check_pair(11, 4);
    check_pair(11, 5);
    check_pair(11, 6);
    check_pair(11, 7);
    check_pair(11, 12);
    kani::cover!(true);
}

//@ ob: id=C09/K/eq_small_values_12 kind=K-bounded fns=Value::eq,Value::not_equals,ArgList::eq,SassMap::eq bound="left value #12 against the 13 stack values {null,true,false,1,1px,'a',a,b,(),space-(),[],arglist(),map()}"
//@ desc: on the small value universe: == is symmetric and reflexive, != is its negation, quoted and unquoted strings with the same text are equal
#[kani::proof]
#[kani::unwind(2)]
#[kani::stub(crate::value::number::Number::convert, convert_contract)]
#[kani::stub(crate::value::number::epsilon, epsilon_const)]
#[kani::stub(crate::value::number::inverse_epsilon, inverse_epsilon_const)]
fn c09_eq_small_values_12() {
    check_pair(12, 0);
    check_pair(12, 1);
    check_pair(12, 2);
    check_pair(12, 3);
    check_pair(12, 4);
    check_pair(12, 5);
    check_pair(12, 6);
    check_pair(12, 7);
    check_pair(12, 8);
    check_pair(12, 9);
    check_pair(12, 10);
    check_pair(12, 11);
    check_pair(12, 12);
    kani::cover!(true);
}

//@ ob: id=C09/K/eq_lists_comma_list_vs_comma_list kind=K-bounded fns=Value::eq,Value::not_equals,ArgList::eq bound="the two empty list-like values comma_list and comma_list"
//@ desc: == between list-like values (comma list, space list, bracketed list, argument list) is symmetric and != is its negation; an argument list is a list (ArgList == ArgList is not covered: BTreeMap comparison, DESIGN E-K15)
#[kani::proof]
#[kani::unwind(1)]
#[kani::stub(crate::value::number::Number::convert, convert_contract)]
#[kani::stub(crate::value::number::epsilon, epsilon_const)]
#[kani::stub(crate::value::number::inverse_epsilon, inverse_epsilon_const)]
fn c09_eq_lists_comma_list_vs_comma_list() {
    check_pair(8, 8);
    kani::cover!(true);
}

//@ ob: id=C09/K/eq_lists_comma_list_vs_space_list kind=K-bounded fns=Value::eq,Value::not_equals,ArgList::eq bound="the two empty list-like values comma_list and space_list"
//@ desc: == between list-like values (comma list, space list, bracketed list, argument list) is symmetric and != is its negation; an argument list is a list (ArgList == ArgList is not covered: BTreeMap comparison, DESIGN E-K15)
#[kani::proof]
#[kani::unwind(1)]
#[kani::stub(crate::value::number::Number::convert, convert_contract)]
#[kani::stub(crate::value::number::epsilon, epsilon_const)]
#[kani::stub(crate::value::number::inverse_epsilon, inverse_epsilon_const)]
fn c09_eq_lists_comma_list_vs_space_list() {
    check_pair(8, 9);
    kani::cover!(true);
}

//@ ob: id=C09/K/eq_lists_comma_list_vs_bracketed_list kind=K-bounded fns=Value::eq,Value::not_equals,ArgList::eq bound="the two empty list-like values comma_list and bracketed_list"
//@ desc: == between list-like values (comma list, space list, bracketed list, argument list) is symmetric and != is its negation; an argument list is a list (ArgList == ArgList is not covered: BTreeMap comparison, DESIGN E-K15)
#[kani::proof]
#[kani::unwind(1)]
#[kani::stub(crate::value::number::Number::convert, convert_contract)]
#[kani::stub(crate::value::number::epsilon, epsilon_const)]
#[kani::stub(crate::value::number::inverse_epsilon, inverse_epsilon_const)]
fn c09_eq_lists_comma_list_vs_bracketed_list() {
    check_pair(8, 10);
    kani::cover!(true);
}

//@ ob: id=C09/K/eq_lists_comma_list_vs_arglist kind=K-bounded tier=thorough fns=Value::eq,Value::not_equals,ArgList::eq bound="the two empty list-like values comma_list and arglist"
//@ desc: == between list-like values (comma list, space list, bracketed list, argument list) is symmetric and != is its negation; an argument list is a list (ArgList == ArgList is not covered: BTreeMap comparison, DESIGN E-K15)
#[kani::proof]
#[kani::unwind(1)]
#[kani::stub(crate::value::number::Number::convert, convert_contract)]
#[kani::stub(crate::value::number::epsilon, epsilon_const)]
#[kani::stub(crate::value::number::inverse_epsilon, inverse_epsilon_const)]
fn c09_eq_lists_comma_list_vs_arglist() {
    check_pair(8, 11);
    kani::cover!(true);
}

//@ ob: id=C09/K/eq_lists_space_list_vs_space_list kind=K-bounded fns=Value::eq,Value::not_equals,ArgList::eq bound="the two empty list-like values space_list and space_list"
//@ desc: == between list-like values (comma list, space list, bracketed list, argument list) is symmetric and != is its negation; an argument list is a list (ArgList == ArgList is not covered: BTreeMap comparison, DESIGN E-K15)
#[kani::proof]
#[kani::unwind(1)]
#[kani::stub(crate::value::number::Number::convert, convert_contract)]
#[kani::stub(crate::value::number::epsilon, epsilon_const)]
#[kani::stub(crate::value::number::inverse_epsilon, inverse_epsilon_const)]
fn c09_eq_lists_space_list_vs_space_list() {
    check_pair(9, 9);
    kani::cover!(true);
}

//@ ob: id=C09/K/eq_lists_space_list_vs_bracketed_list kind=K-bounded fns=Value::eq,Value::not_equals,ArgList::eq bound="the two empty list-like values space_list and bracketed_list"
//@ desc: == between list-like values (comma list, space list, bracketed list, argument list) is symmetric and != is its negation; an argument list is a list (ArgList == ArgList is not covered: BTreeMap comparison, DESIGN E-K15)
#[kani::proof]
#[kani::unwind(1)]
#[kani::stub(crate::value::number::Number::convert, convert_contract)]
#[kani::stub(crate::value::number::epsilon, epsilon_const)]
#[kani::stub(crate::value::number::inverse_epsilon, inverse_epsilon_const)]
fn c09_eq_lists_space_list_vs_bracketed_list() {
    check_pair(9, 10);
    kani::cover!(true);
}

//@ ob: id=C09/K/eq_lists_space_list_vs_arglist kind=K-bounded tier=thorough fns=Value::eq,Value::not_equals,ArgList::eq bound="the two empty list-like values space_list and arglist"
//@ desc: == between list-like values (comma list, space list, bracketed list, argument list) is symmetric and != is its negation; an argument list is a list (ArgList == ArgList is not covered: BTreeMap comparison, DESIGN E-K15)
#[kani::proof]
#[kani::unwind(1)]
#[kani::stub(crate::value::number::Number::convert, convert_contract)]
#[kani::stub(crate::value::number::epsilon, epsilon_const)]
#[kani::stub(crate::value::number::inverse_epsilon, inverse_epsilon_const)]
fn c09_eq_lists_space_list_vs_arglist() {
    check_pair(9, 11);
    kani::cover!(true);
}

//@ ob: id=C09/K/eq_lists_bracketed_list_vs_bracketed_list kind=K-bounded fns=Value::eq,Value::not_equals,ArgList::eq bound="the two empty list-like values bracketed_list and bracketed_list"
//@ desc: == between list-like values (comma list, space list, bracketed list, argument list) is symmetric and != is its negation; an argument list is a list (ArgList == ArgList is not covered: BTreeMap comparison, DESIGN E-K15)
#[kani::proof]
#[kani::unwind(1)]
#[kani::stub(crate::value::number::Number::convert, convert_contract)]
#[kani::stub(crate::value::number::epsilon, epsilon_const)]
#[kani::stub(crate::value::number::inverse_epsilon, inverse_epsilon_const)]
fn c09_eq_lists_bracketed_list_vs_bracketed_list() {
    check_pair(10, 10);
    kani::cover!(true);
}

//@ ob: id=C09/K/eq_lists_bracketed_list_vs_arglist kind=K-bounded tier=thorough fns=Value::eq,Value::not_equals,ArgList::eq bound="the two empty list-like values bracketed_list and arglist"
//@ desc: == between list-like values (comma list, space list, bracketed list, argument list) is symmetric and != is its negation; an argument list is a list (ArgList == ArgList is not covered: BTreeMap comparison, DESIGN E-K15)
#[kani::proof]
#[kani::unwind(1)]
#[kani::stub(crate::value::number::Number::convert, convert_contract)]
#[kani::stub(crate::value::number::epsilon, epsilon_const)]
#[kani::stub(crate::value::number::inverse_epsilon, inverse_epsilon_const)]
fn c09_eq_lists_bracketed_list_vs_arglist() {
    check_pair(10, 11);
    kani::cover!(true);
}
