//@ target: crates/compiler/src/unit/mod.rs
//@ module: verif_kani_c08
//@ props: C08 C01
use super::conversion::verif_kani_table::*;
use super::verif_kani_support::*;

const ULP4: f64 = 4.0 * f64::EPSILON;

fn rel_close(a: f64, b: f64) -> bool {
    (a - b).abs() <= ULP4 * b.abs()
}

// ---------------------------------------------------------------------------
// table coherence (mech 1): concrete loops over the 34 known units; every float
// operation is on constants, so CBMC folds it exactly.
// ---------------------------------------------------------------------------

//@ ob: id=C08/K/table_keys_match_classes kind=K-full fns=UNIT_CONVERSION_TABLE
//@ desc: table has an entry [to][from] exactly when both units are in the same convertible class of the statement (lengths, angles, times, frequencies, resolutions); no entry for None/Unknown/complex/relative units
#[kani::proof]
#[kani::unwind(38)]
fn c08_table_keys_match_classes() {
    let mut entries = 0usize;
    let mut a = 0u8;
    while a < N_SIMPLE {
        let mut b = 0u8;
        while b < N_SIMPLE {
            let ua = unit_of(a, 7);
            let ub = unit_of(b, 7);
            let has = table_model(&ua, &ub).is_some();
            let want = spec_class(a) != 0 && spec_class(a) == spec_class(b);
            assert!(has == want, "C08/K/table_keys_match_classes");
            if has {
                entries += 1;
            }
            b += 1;
        }
        a += 1;
    }
    assert!(entries == TABLE_MODEL_ARMS, "C08/K/table_keys_match_classes: arm count");
    kani::cover!(entries == 82);
}

//@ ob: id=C08/K/table_identity kind=K-full fns=UNIT_CONVERSION_TABLE
//@ desc: converting a unit to itself has factor exactly 1
#[kani::proof]
#[kani::unwind(36)]
fn c08_table_identity() {
    let mut a = 0u8;
    while a < N_KNOWN {
        if spec_class(a) != 0 {
            let u = unit_of(a, 0);
            assert!(table_model(&u, &u) == Some(1.0), "C08/K/table_identity");
        }
        a += 1;
    }
    kani::cover!(true);
}

//@ ob: id=C08/K/table_css_ratios kind=K-full fns=UNIT_CONVERSION_TABLE
//@ desc: every factor [to][from] equals the CSS ratio of the statement (per_reference(to)/per_reference(from)) within 4 ulp
#[kani::proof]
#[kani::unwind(36)]
fn c08_table_css_ratios() {
    let mut a = 0u8;
    while a < N_KNOWN {
        let mut b = 0u8;
        while b < N_KNOWN {
            if spec_class(a) != 0 && spec_class(a) == spec_class(b) {
                let t = table_model(&unit_of(a, 0), &unit_of(b, 0)).unwrap();
                let want = spec_per_reference(a) / spec_per_reference(b);
                assert!(rel_close(t, want), "C08/K/table_css_ratios");
            }
            b += 1;
        }
        a += 1;
    }
    kani::cover!(true);
}

//@ ob: id=C08/K/table_round_trip kind=K-full fns=UNIT_CONVERSION_TABLE
//@ desc: there-and-back is the identity: t[a][b]*t[b][a] == 1 within 4 ulp
#[kani::proof]
#[kani::unwind(36)]
fn c08_table_round_trip() {
    let mut a = 0u8;
    while a < N_KNOWN {
        let mut b = 0u8;
        while b < N_KNOWN {
            if spec_class(a) != 0 && spec_class(a) == spec_class(b) {
                let ab = table_model(&unit_of(a, 0), &unit_of(b, 0)).unwrap();
                let ba = table_model(&unit_of(b, 0), &unit_of(a, 0)).unwrap();
                assert!(rel_close(ab * ba, 1.0), "C08/K/table_round_trip");
            }
            b += 1;
        }
        a += 1;
    }
    kani::cover!(true);
}

//@ ob: id=C08/K/table_transitive kind=K-full fns=UNIT_CONVERSION_TABLE
//@ desc: conversion is transitive: t[c][b]*t[b][a] == t[c][a] within 4 ulp
#[kani::proof]
#[kani::unwind(36)]
fn c08_table_transitive() {
    let mut a = 0u8;
    while a < N_KNOWN {
        let mut b = 0u8;
        while b < N_KNOWN {
            if spec_class(a) != 0 && spec_class(a) == spec_class(b) {
                let mut c = 0u8;
                while c < N_KNOWN {
                    if spec_class(c) == spec_class(a) {
                        let ba = table_model(&unit_of(b, 0), &unit_of(a, 0)).unwrap();
                        let cb = table_model(&unit_of(c, 0), &unit_of(b, 0)).unwrap();
                        let ca = table_model(&unit_of(c, 0), &unit_of(a, 0)).unwrap();
                        assert!(rel_close(cb * ba, ca), "C08/K/table_transitive");
                    }
                    c += 1;
                }
            }
            b += 1;
        }
        a += 1;
    }
    kani::cover!(true);
}

// ---------------------------------------------------------------------------
// comparable()/kind() (mech 2) on the real code.  Simple units (34 known, None,
// two Unknown with symbolic keys) are symbolic; `unwind(1)` makes CBMC prove that
// the recursive Complex==Complex arm of the derived `PartialEq` is unreachable.
// Complex units are concrete values built once (see support_unit.rs).
// ---------------------------------------------------------------------------

//@ ob: id=C08/K/comparable_matches_statement kind=K-full fns=Unit::comparable,Unit::kind
//@ desc: for two non-None simple units, comparable() holds iff they are equal or in the same convertible class of the statement; None is comparable with everything
#[kani::proof]
#[kani::unwind(1)]
fn c08_comparable_matches_statement() {
    let (ia, a) = any_simple_unit();
    let (ib, b) = any_simple_unit();
    let got = a.comparable(&b);
    if ia == IDX_NONE || ib == IDX_NONE {
        assert!(got, "C08/K/comparable_matches_statement: None");
    } else {
        let want = a == b || (spec_class(ia) != 0 && spec_class(ia) == spec_class(ib));
        assert!(got == want, "C08/K/comparable_matches_statement");
    }
    kani::cover!(got && ia != ib && ia != IDX_NONE && ib != IDX_NONE);
    kani::cover!(!got);
}

//@ ob: id=C08/K/comparable_complex kind=K-full fns=Unit::comparable,Unit::kind,UNIT_CONVERSION_TABLE
//@ desc: a complex unit is comparable only with itself and with None (both argument orders), and never has a table entry
#[kani::proof]
#[kani::unwind(38)]
fn c08_comparable_complex() {
    let k: u8 = kani::any();
    kani::assume(k < 200);
    let cs = complex_units();
    let mut i = 0usize;
    while i < 4 {
        let mut j = 0usize;
        while j < 4 {
            assert!(cs[i].comparable(&cs[j]) == (i == j), "C08/K/comparable_complex: complex x complex");
            assert!(table_model(&cs[i], &cs[j]).is_none(), "C08/K/comparable_complex: table");
            j += 1;
        }
        let mut b = 0u8;
        while b < N_SIMPLE {
            let ub = unit_of(b, k);
            assert!(cs[i].comparable(&ub) == (b == IDX_NONE), "C08/K/comparable_complex: complex x simple");
            assert!(ub.comparable(&cs[i]) == (b == IDX_NONE), "C08/K/comparable_complex: simple x complex");
            assert!(table_model(&cs[i], &ub).is_none() && table_model(&ub, &cs[i]).is_none(), "C08/K/comparable_complex: table");
            b += 1;
        }
        i += 1;
    }
    kani::cover!(true);
}

//@ ob: id=C08/K/comparable_equivalence kind=K-full fns=Unit::comparable
//@ desc: comparable() is reflexive and symmetric on all simple units and transitive on non-None units
#[kani::proof]
#[kani::unwind(1)]
fn c08_comparable_equivalence() {
    let (_ia, a) = any_simple_unit();
    let (_ib, b) = any_simple_unit();
    let (_ic, c) = any_simple_unit();
    assert!(a.comparable(&a), "C08/K/comparable_equivalence: reflexive");
    assert!(a.comparable(&b) == b.comparable(&a), "C08/K/comparable_equivalence: symmetric");
    if a != Unit::None && b != Unit::None && c != Unit::None && a.comparable(&b) && b.comparable(&c) {
        assert!(a.comparable(&c), "C08/K/comparable_equivalence: transitive");
    }
    kani::cover!(a != b && a.comparable(&b));
}

//@ ob: id=C08/K/comparable_implies_table_entry kind=K-full fns=Unit::comparable,UNIT_CONVERSION_TABLE,Number::convert also=C01
//@ desc: Number::convert.requires lemma: for distinct non-None units, comparable(a,b) implies the table has entries [a][b] and [b][a], so convert cannot hit a missing key (complex units: see comparable_complex)
#[kani::proof]
#[kani::unwind(1)]
fn c08_comparable_implies_table_entry() {
    let (_ia, a) = any_simple_unit();
    let (_ib, b) = any_simple_unit();
    if a != Unit::None && b != Unit::None && a != b && a.comparable(&b) {
        assert!(table_model(&a, &b).is_some(), "C08/K/comparable_implies_table_entry");
        assert!(table_model(&b, &a).is_some(), "C08/K/comparable_implies_table_entry: reverse");
    }
    kani::cover!(a != Unit::None && b != Unit::None && a != b && a.comparable(&b));
}

//@ ob: id=C08/K/compat_sets_agree_with_kind kind=K-full fns=known_compatibilities_by_unit,KNOWN_COMPATIBILITIES,Unit::kind
//@ desc: on two units that both have a known-compatibility set, set membership is symmetric, reflexive, implied by comparable(), and outside the merged length class coincides with comparable()
#[kani::proof]
#[kani::unwind(1)]
fn c08_compat_sets_agree_with_kind() {
    let (ia, a) = any_simple_unit();
    let (ib, b) = any_simple_unit();
    if let (Some(ca), Some(cb)) = (compat_class_model(&a), compat_class_model(&b)) {
        let in_set = compat_set_contains_model(ca, &b);
        assert!(compat_set_contains_model(ca, &a), "C08/K/compat_sets_agree_with_kind: self");
        assert!(in_set == compat_set_contains_model(cb, &a), "C08/K/compat_sets_agree_with_kind: symmetric");
        assert!(in_set == (ca == cb), "C08/K/compat_sets_agree_with_kind: class");
        if a.comparable(&b) {
            assert!(in_set, "C08/K/compat_sets_agree_with_kind: comparable implies compatible");
        }
        if ca != 0 {
            assert!(in_set == a.comparable(&b), "C08/K/compat_sets_agree_with_kind: exact");
        }
    }
    kani::cover!(ia != ib && compat_class_model(&a).is_some() && compat_class_model(&b).is_some());
}
