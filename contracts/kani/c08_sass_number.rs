//@ target: crates/compiler/src/value/sass_number.rs
//@ module: verif_kani_c08
//@ props: C08 C01 C09
//! Call sites of `Number::convert` in sass_number.rs and the "left operand's unit
//! wins" rule (C08 mech 3). Units are symbolic over the simple domain, magnitudes
//! concrete (a symbolic f64 multiply is out of CBMC's reach, DESIGN E-K6).
use crate::unit::verif_kani_support::table_model;
use crate::unit::verif_kani_support::{any_simple_unit, spec_class, unit_of, IDX_NONE};
use crate::value::number::verif_kani_support::{convert_contract, convert_factor_spec, epsilon_const, inverse_epsilon_const};

fn sn(n: f64, u: Unit) -> SassNumber {
    SassNumber { num: Number(n), unit: u, as_slash: None }
}

/// equal up to a few ulp: the statement fixes the ratios, not the order of the float operations
fn close(got: f64, want: f64) -> bool {
    (got - want).abs() <= 1e-12 * if want.abs() > 1.0 { want.abs() } else { 1.0 }
}

fn expected_unit(ia: u8, ib: u8, a: &Unit, b: &Unit) -> Unit {
    if ia == IDX_NONE {
        b.clone()
    } else {
        a.clone()
    }
}

//@ ob: id=C08/K/sassnumber_add_sub kind=K-contract fns=SassNumber::add,SassNumber::sub,Number::convert also=C01
//@ desc: for comparable operands, `+`/`-` on SassNumber never violate Number::convert.requires; the result takes the left operand's unit (the right one's when the left is unitless) and the magnitude is l op r*factor(to=left,from=right)
#[kani::proof]
#[kani::unwind(1)]
#[kani::stub(crate::value::number::Number::convert, convert_contract)]
fn c08_sassnumber_add_sub() {
    let (ia, a) = any_simple_unit();
    let (ib, b) = any_simple_unit();
    kani::assume(a.comparable(&b));
    let l = 3.0;
    let r = 2.0;
    let f = convert_factor_spec(&b, &a);
    assert!(f.is_some(), "C08/K/sassnumber_add_sub: factor exists");
    let f = f.unwrap();
    let want_unit = expected_unit(ia, ib, &a, &b);
    if kani::any() {
        let out = sn(l, a.clone()) + sn(r, b.clone());
        assert!(out.unit == want_unit, "C08/K/sassnumber_add_sub: unit of sum");
        assert!(close(out.num.0, l + r * f), "C08/K/sassnumber_add_sub: magnitude of sum");
        assert!(out.as_slash.is_none(), "C08/K/sassnumber_add_sub: slash dropped");
    } else {
        let out = sn(l, a.clone()) - sn(r, b.clone());
        assert!(out.unit == want_unit, "C08/K/sassnumber_add_sub: unit of difference");
        assert!(close(out.num.0, l - r * f), "C08/K/sassnumber_add_sub: magnitude of difference");
    }
    kani::cover!(ia != ib && ia != IDX_NONE && ib != IDX_NONE);
    kani::cover!(ia == IDX_NONE && ib != IDX_NONE);
}

//@ ob: id=C08/K/sassnumber_add_sub_more_magnitudes kind=K-contract tier=thorough fns=SassNumber::add,SassNumber::sub,Number::convert also=C01
//@ desc: the add/sub contract (see sassnumber_add_sub) for negative, fractional and zero magnitudes
#[kani::proof]
#[kani::unwind(1)]
#[kani::stub(crate::value::number::Number::convert, convert_contract)]
fn c08_sassnumber_add_sub_more_magnitudes() {
    let (ia, a) = any_simple_unit();
    let (ib, b) = any_simple_unit();
    kani::assume(a.comparable(&b));
    let sel: u8 = kani::any();
    kani::assume(sel < 3);
    let (l, r) = match sel {
        0 => (-7.5, 0.25),
        1 => (0.0, -96.0),
        _ => (1e9, 1e-3),
    };
    let f = convert_factor_spec(&b, &a).unwrap();
    let want_unit = expected_unit(ia, ib, &a, &b);
    if kani::any() {
        let out = sn(l, a.clone()) + sn(r, b.clone());
        assert!(out.unit == want_unit, "C08/K/sassnumber_add_sub_more_magnitudes: unit of sum");
        assert!(close(out.num.0, l + r * f), "C08/K/sassnumber_add_sub_more_magnitudes: magnitude of sum");
    } else {
        let out = sn(l, a.clone()) - sn(r, b.clone());
        assert!(out.unit == want_unit, "C08/K/sassnumber_add_sub_more_magnitudes: unit of difference");
        assert!(close(out.num.0, l - r * f), "C08/K/sassnumber_add_sub_more_magnitudes: magnitude of difference");
    }
    kani::cover!(ia != ib && ia != IDX_NONE && ib != IDX_NONE);
}

//@ ob: id=C08/K/sassnumber_eq kind=K-contract fns=SassNumber::eq,SassNumber::has_compatible_units,SassNumber::has_comparable_units,Number::convert also=C01,C09
//@ desc: SassNumber == never violates Number::convert.requires for any pair of simple units; incomparable units are unequal; unitless equals only unitless; equal magnitudes of convertible units compare after conversion; has_compatible_units is comparable() with None compatible only with None
#[kani::proof]
#[kani::unwind(1)]
#[kani::stub(crate::value::number::Number::convert, convert_contract)]
#[kani::stub(crate::value::number::epsilon, epsilon_const)]
#[kani::stub(crate::value::number::inverse_epsilon, inverse_epsilon_const)]
fn c08_sassnumber_eq() {
    let (ia, a) = any_simple_unit();
    let (ib, b) = any_simple_unit();
    let x = sn(96.0, a.clone());
    let y = sn(96.0, b.clone());
    let eq = x == y;
    let none_mismatch = (ia == IDX_NONE) != (ib == IDX_NONE);
    if !a.comparable(&b) || none_mismatch {
        assert!(!eq, "C08/K/sassnumber_eq: incomparable or unitless-vs-unit must be unequal");
    } else if a == b {
        assert!(eq, "C08/K/sassnumber_eq: same unit, same magnitude");
    } else {
        let f = table_model(&a, &b).unwrap();
        assert!(eq == (Number(96.0) == Number(96.0 * f)), "C08/K/sassnumber_eq: compares after converting the right operand into the left unit");
    }
    assert!(x.has_comparable_units(&b) == a.comparable(&b), "C08/K/sassnumber_eq: has_comparable_units");
    assert!(x.has_compatible_units(&b) == (a.comparable(&b) && !none_mismatch), "C08/K/sassnumber_eq: has_compatible_units");
    assert!(x.is_comparable_to(&y) == a.comparable(&b), "C08/K/sassnumber_eq: is_comparable_to");
    kani::cover!(eq && ia != ib);
    kani::cover!(!eq && a.comparable(&b));
}

//@ ob: id=C08/K/sassnumber_eq_in_px kind=K-contract fns=SassNumber::eq,Number::convert also=C09
//@ desc: the statement's ratios through ==: 1in == 96px == 2.54cm == 25.4mm == 101.6q == 72pt == 6pc, 1turn == 360deg == 400grad, 1s == 1000ms, 1kHz == 1000Hz, 1dppx == 96dpi, and symmetric
#[kani::proof]
#[kani::unwind(20)]
#[kani::stub(crate::value::number::Number::convert, convert_contract)]
#[kani::stub(crate::value::number::epsilon, epsilon_const)]
#[kani::stub(crate::value::number::inverse_epsilon, inverse_epsilon_const)]
fn c08_sassnumber_eq_in_px() {
    let idx = [2u8, 0, 3, 1, 4, 5, 6, 24, 21, 22, 25, 26, 28, 27, 31, 29];
    let val = [1.0, 96.0, 2.54, 25.4, 101.6, 72.0, 6.0, 1.0, 360.0, 400.0, 1.0, 1000.0, 1.0, 1000.0, 1.0, 96.0];
    let mut i = 0;
    while i < 16 {
        let mut j = 0;
        while j < 16 {
            if spec_class(idx[i]) == spec_class(idx[j]) {
                let x = sn(val[i], unit_of(idx[i], 0));
                let y = sn(val[j], unit_of(idx[j], 0));
                assert!(x == y, "C08/K/sassnumber_eq_in_px");
            }
            j += 1;
        }
        i += 1;
    }
    kani::cover!(true);
}
