//@ target: crates/compiler/src/unit/conversion.rs
//@ module: verif_kani_table
//@ props: *
//@ generate: table_model
//! The text of this module is generated on every run from the current
//! `UNIT_CONVERSION_TABLE` / `KNOWN_COMPATIBILITIES` initializers
//! (lib/gv/tablegen.py); see DESIGN.md §3.1 for what the rewrite drops.
