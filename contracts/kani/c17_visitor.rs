//@ target: crates/compiler/src/evaluate/visitor.rs
//@ module: verif_kani_c17
//@ props: C17
//! Cartesian merge of two query lists (C17 mech 2): `Visitor::merge_media_queries`
//! is an associated function without `self`, so it can be called without
//! constructing a `Visitor` (which Kani cannot, DESIGN E-K7). Only the all-empty
//! case finishes: harnesses whose merged list is non-empty or None ran > 20 min
//! in CBMC (measured, DESIGN E-K16) and are not registered.
use crate::ast::verif_kani_c17_reexport::{any_env, mq, sat, Env};

fn sat_list(l: &[MediaQuery], e: Env) -> bool {
    let mut any = false;
    let mut i = 0;
    while i < l.len() {
        any = any || sat(&l[i], e);
        i += 1;
    }
    any
}

#[allow(dead_code)]
fn check_lists(l1: &[MediaQuery], l2: &[MediaQuery], expect_some: bool) {
    let e = any_env();
    let r = Visitor::merge_media_queries(l1, l2);
    match &r {
        Some(m) => {
            assert!(sat_list(m, e) == (sat_list(l1, e) && sat_list(l2, e)), "C17/K/merge_lists: merged list is not the intersection of the two lists");
            assert!(expect_some, "C17/K/merge_lists: merged although a pair is unrepresentable");
        }
        None => assert!(!expect_some, "C17/K/merge_lists: kept nested although every pair is representable"),
    }
}

//@ ob: id=C17/K/merge_lists_empty_dropped kind=K-bounded fns=Visitor::merge_media_queries,MediaQuery::merge bound="lists [screen] x [print, not screen]"
//@ desc: when every pairwise intersection is empty the merged list is empty (the inner rule is dropped) and no environment satisfies both lists
#[kani::proof]
#[kani::unwind(12)]
fn c17_merge_lists_empty_dropped() {
    let l1 = [mq(None, Some("screen"), &[])];
    let l2 = [mq(None, Some("print"), &[]), mq(Some("not"), Some("screen"), &[])];
    let e = any_env();
    let r = Visitor::merge_media_queries(&l1, &l2);
    match &r {
        Some(m) => {
            assert!(m.is_empty(), "C17/K/merge_lists_empty_dropped: empty intersections must be dropped");
            assert!(!(sat_list(&l1, e) && sat_list(&l2, e)), "C17/K/merge_lists_empty_dropped: lists do intersect");
        }
        None => assert!(false, "C17/K/merge_lists_empty_dropped: representable"),
    }
    kani::cover!(true);
}

