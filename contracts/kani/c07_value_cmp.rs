//@ target: crates/compiler/src/value/mod.rs
//@ module: verif_kani_c07
//@ props: C07
//! Ordering of numbers at the value level (`<`, `<=`, `>`, `>=` go through
//! `Value::cmp`): the statement requires ordering to treat numbers within 1e-11 as
//! equal, i.e. to be consistent with `==`. One operand is symbolic over all
//! doubles, the other ranges over concrete magnitudes (two symbolic operands are
//! out of CBMC's reach, DESIGN E-K13).
use super::verif_kani_support::{convert_contract, epsilon_const, inverse_epsilon_const};
use crate::lexer::verif_kani_support::span_of;

fn inspect_stub(_v: &Value, _span: Span) -> SassResult<String> {
    Ok(String::new())
}
fn format_stub(_args: std::fmt::Arguments<'_>) -> String {
    String::new()
}
fn istr_fmt_stub(_s: &crate::interner::InternedString, _f: &mut std::fmt::Formatter<'_>) -> std::fmt::Result {
    Ok(())
}

fn num(n: f64) -> Value {
    Value::Dimension(SassNumber { num: Number(n), unit: Unit::None, as_slash: None })
}

fn check_cmp(a: f64, b: f64) {
    // never dropped: `Value`'s drop glue reaches `HashMap`'s (through SassFunction ->
    // Environment -> ExtensionStore), on which kani-compiler ICEs (DESIGN E-K7)
    let va = std::mem::ManuallyDrop::new(num(a));
    let vb = std::mem::ManuallyDrop::new(num(b));
    let span = span_of(0, 1);
    let equal = Number(a) == Number(b);
    match va.cmp(&vb, span, BinaryOp::LessThan) {
        Ok(Some(Ordering::Equal)) => assert!(equal, "C07/K/value_cmp_consistent_with_equality: Equal only for (fuzzy) equal numbers"),
        Ok(Some(Ordering::Less)) => assert!(a < b && !equal, "C07/K/value_cmp_consistent_with_equality: Less excludes numbers equal within tolerance"),
        Ok(Some(Ordering::Greater)) => assert!(a > b && !equal, "C07/K/value_cmp_consistent_with_equality: Greater excludes numbers equal within tolerance"),
        Ok(None) => assert!(a.is_nan() || b.is_nan(), "C07/K/value_cmp_consistent_with_equality: unordered only for NaN"),
        Err(_) => assert!(false, "C07/K/value_cmp_consistent_with_equality: unitless numbers are always comparable"),
    }
}

//@ ob: id=C07/K/value_cmp_consistent_with_equality kind=K-full fns=Value::cmp,Number::partial_cmp bound="left operand: all doubles; right operand: 0, 1, -2.5, 1e6, 0.1"
//@ desc: Value::cmp on two unitless numbers answers Equal exactly when the numbers are == (within 1e-11), Less/Greater only for numbers that are not equal within tolerance, None only for NaN - so `<=`/`>=`/`<`/`>` agree with `==`
#[kani::proof]
#[kani::unwind(1)]
#[kani::stub(crate::value::number::epsilon, epsilon_const)]
#[kani::stub(crate::value::number::inverse_epsilon, inverse_epsilon_const)]
#[kani::stub(crate::value::number::Number::convert, convert_contract)]
#[kani::stub(crate::value::Value::inspect, inspect_stub)]
#[kani::stub(alloc::fmt::format, format_stub)]
#[kani::stub(<crate::interner::InternedString as std::fmt::Display>::fmt, istr_fmt_stub)]
fn c07_value_cmp_consistent_with_equality() {
    let a: f64 = kani::any();
    let which: u8 = kani::any();
    kani::assume(which < 5);
    let b = match which {
        0 => 0.0,
        1 => 1.0,
        2 => -2.5,
        3 => 1e6,
        _ => 0.1,
    };
    check_cmp(a, b);
    kani::cover!(a != b && Number(a) == Number(b));
    kani::cover!(a < b);
}
