//@ target: crates/compiler/src/lexer.rs
//@ module: verif_kani_c01
//@ props: C01
//! The contracts that contracts/verus/prelude_parser.rs *assumes* for `Lexer`,
//! discharged here on the real lexer.rs. The functions are loop-free; the only
//! bound is the buffer length (<= 4 tokens, symbolic contents).
use super::verif_kani_support::*;

fn same_buf(a: &Vec<Token>, b: &Vec<Token>) -> bool {
    a == b
}

//@ ob: id=C01/K/lexer_peek kind=K-bounded fns=Lexer::peek,Lexer::peek_n,Lexer::next_char_is,Lexer::cursor bound="buffer <= 4 tokens (functions are loop-free)"
//@ desc: peek/peek_n/next_char_is return the token at cursor(+n) or None past the end, for any cursor, and change nothing (prelude contracts of the Verus units)
#[kani::proof]
#[kani::unwind(6)]
fn c01_lexer_peek() {
    let l = any_lexer();
    let c = l.cursor;
    let len = l.buf.len();
    let r = l.peek();
    if c < len {
        assert!(r == Some(l.buf[c]), "C01/K/lexer_peek: in range");
    } else {
        assert!(r.is_none(), "C01/K/lexer_peek: past end");
    }
    let n: usize = kani::any();
    kani::assume(c.checked_add(n).is_some());
    let rn = l.peek_n(n);
    if c + n < len {
        assert!(rn == Some(l.buf[c + n]), "C01/K/lexer_peek: peek_n in range");
    } else {
        assert!(rn.is_none(), "C01/K/lexer_peek: peek_n past end");
    }
    let ch: char = kani::any();
    assert!(l.next_char_is(ch) == (c < len && l.buf[c].kind == ch), "C01/K/lexer_peek: next_char_is");
    assert!(l.cursor() == c, "C01/K/lexer_peek: cursor()");
    kani::cover!(c < len);
    kani::cover!(c >= len);
}

//@ ob: id=C01/K/lexer_next kind=K-bounded fns=Lexer::next,Lexer::set_cursor bound="buffer <= 4 tokens (functions are loop-free)"
//@ desc: next() returns the token at the cursor and advances by exactly one, or returns None and leaves the cursor unchanged at/past the end; the buffer is never modified; set_cursor sets exactly the cursor
#[kani::proof]
#[kani::unwind(6)]
fn c01_lexer_next() {
    let mut l = any_lexer();
    let before = l.buf.clone();
    let c = l.cursor;
    let r = l.next();
    assert!(same_buf(&l.buf, &before), "C01/K/lexer_next: frame");
    if c < before.len() {
        assert!(r == Some(before[c]) && l.cursor == c + 1, "C01/K/lexer_next: advance");
    } else {
        assert!(r.is_none() && l.cursor == c, "C01/K/lexer_next: end");
    }
    let nc: usize = kani::any();
    l.set_cursor(nc);
    assert!(l.cursor == nc && same_buf(&l.buf, &before), "C01/K/lexer_next: set_cursor");
    kani::cover!(c < before.len());
    kani::cover!(c >= before.len());
}

//@ ob: id=C01/K/lexer_peek_back kind=K-bounded fns=Lexer::peek_previous,Lexer::peek_n_backwards bound="buffer <= 4 tokens (functions are loop-free)"
//@ desc: backwards peeks never panic (checked_sub) and return the token at cursor-n when it exists
#[kani::proof]
#[kani::unwind(6)]
fn c01_lexer_peek_back() {
    let mut l = any_lexer();
    let c = l.cursor;
    let len = l.buf.len();
    let r = l.peek_previous();
    if c >= 1 && c - 1 < len {
        assert!(r == Some(l.buf[c - 1]), "C01/K/lexer_peek_back: previous");
    } else {
        assert!(r.is_none(), "C01/K/lexer_peek_back: previous none");
    }
    let n: usize = kani::any();
    let rn = l.peek_n_backwards(n);
    if c >= n && c - n < len {
        assert!(rn == Some(l.buf[c - n]), "C01/K/lexer_peek_back: n");
    } else {
        assert!(rn.is_none(), "C01/K/lexer_peek_back: n none");
    }
    kani::cover!(c >= 1 && c - 1 < len);
}

//@ ob: id=C01/K/lexer_raw_text kind=K-bounded fns=Lexer::raw_text bound="buffer <= 4 tokens; unwind 6"
//@ desc: raw_text(start) does not panic when start <= cursor <= len (the precondition the Verus units prove at call sites)
#[kani::proof]
#[kani::unwind(6)]
fn c01_lexer_raw_text() {
    let l = any_wf_lexer();
    let start: usize = kani::any();
    kani::assume(start <= l.cursor);
    let s = l.raw_text(start);
    kani::cover!(start < l.cursor);
    let _ = s;
}
