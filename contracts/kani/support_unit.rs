//@ target: crates/compiler/src/unit/mod.rs
//@ module: verif_kani_support
//@ props: *
//! Enumeration of the whole `Unit` domain used by every unit harness:
//! indices 0..=33 are the 34 known units in declaration order, 34 is `None`,
//! 35/36 are `Unknown` with a symbolic interner key, 37..=40 are complex units.
use crate::interner::verif_kani_support::interned_from_key;
pub(crate) use super::conversion::verif_kani_table::{compat_class_model, compat_set_contains_model, table_model, TABLE_MODEL_ARMS};

pub(crate) const N_KNOWN: u8 = 34;
pub(crate) const IDX_NONE: u8 = 34;
pub(crate) const IDX_UNKNOWN_A: u8 = 35;
pub(crate) const IDX_UNKNOWN_B: u8 = 36;
pub(crate) const N_SIMPLE: u8 = 37;
pub(crate) const N_ALL: u8 = 41;

/// `key` only matters for the two `Unknown` indices.
pub(crate) fn unit_of(idx: u8, key: u8) -> Unit {
    match idx {
        0 => Unit::Px,
        1 => Unit::Mm,
        2 => Unit::In,
        3 => Unit::Cm,
        4 => Unit::Q,
        5 => Unit::Pt,
        6 => Unit::Pc,
        7 => Unit::Em,
        8 => Unit::Rem,
        9 => Unit::Lh,
        10 => Unit::Ex,
        11 => Unit::Ch,
        12 => Unit::Cap,
        13 => Unit::Ic,
        14 => Unit::Rlh,
        15 => Unit::Vw,
        16 => Unit::Vh,
        17 => Unit::Vmin,
        18 => Unit::Vmax,
        19 => Unit::Vi,
        20 => Unit::Vb,
        21 => Unit::Deg,
        22 => Unit::Grad,
        23 => Unit::Rad,
        24 => Unit::Turn,
        25 => Unit::S,
        26 => Unit::Ms,
        27 => Unit::Hz,
        28 => Unit::Khz,
        29 => Unit::Dpi,
        30 => Unit::Dpcm,
        31 => Unit::Dppx,
        32 => Unit::Fr,
        33 => Unit::Percent,
        34 => Unit::None,
        35 => Unit::Unknown(interned_from_key(key)),
        36 => Unit::Unknown(interned_from_key(key.wrapping_add(1))),
        37 => Unit::Complex(Arc::new(ComplexUnit { numer: vec![Unit::Px, Unit::Em], denom: vec![] })),
        38 => Unit::Complex(Arc::new(ComplexUnit { numer: vec![Unit::Px], denom: vec![Unit::S] })),
        39 => Unit::Complex(Arc::new(ComplexUnit { numer: vec![], denom: vec![Unit::S] })),
        _ => Unit::Complex(Arc::new(ComplexUnit { numer: vec![Unit::In, Unit::Em], denom: vec![] })),
    }
}

/// Symbolic unit over the simple domain (known units, None, two Unknowns).
pub(crate) fn any_simple_unit() -> (u8, Unit) {
    let idx: u8 = kani::any();
    kani::assume(idx < N_SIMPLE);
    let key: u8 = kani::any();
    kani::assume(key < 200);
    (idx, unit_of(idx, key))
}

/// The four complex units (indices 37..=40), built once: allocating them inside
/// a loop makes CBMC's symbolic execution blow up (measured, DESIGN E-K11).
pub(crate) fn complex_units() -> [Unit; 4] {
    [unit_of(37, 0), unit_of(38, 0), unit_of(39, 0), unit_of(40, 0)]
}

/// The convertibility class the *property statement* assigns to a known unit
/// (lengths, angles, times, frequencies, resolutions); 0 = not convertible.
/// Written from the CSS ratios in C08, independently of `Unit::kind`.
pub(crate) fn spec_class(idx: u8) -> u8 {
    match idx {
        0..=6 => 1,   // px mm in cm q pt pc
        21..=24 => 2, // deg grad rad turn
        25 | 26 => 3, // s ms
        27 | 28 => 4, // Hz kHz
        29..=31 => 5, // dpi dpcm dppx
        _ => 0,
    }
}

/// How many `from` units make one reference unit of the class (in, turn, s, kHz,
/// dppx), taken from the statement of C08:
/// 1in=96px=2.54cm=25.4mm=101.6q=72pt=6pc, 1turn=360deg=400grad=2pi rad,
/// 1s=1000ms, 1kHz=1000Hz, 1dppx=96dpi, 1dpcm=2.54dpi.
pub(crate) fn spec_per_reference(idx: u8) -> f64 {
    match idx {
        0 => 96.0,   // px per in
        1 => 25.4,   // mm per in
        2 => 1.0,    // in
        3 => 2.54,   // cm per in
        4 => 101.6,  // q per in
        5 => 72.0,   // pt per in
        6 => 6.0,    // pc per in
        21 => 360.0, // deg per turn
        22 => 400.0, // grad per turn
        23 => 2.0 * std::f64::consts::PI, // rad per turn
        24 => 1.0,
        25 => 1.0,    // s
        26 => 1000.0, // ms per s
        27 => 1000.0, // Hz per kHz
        28 => 1.0,
        29 => 96.0,        // dpi per dppx
        30 => 96.0 / 2.54, // dpcm per dppx (1dpcm = 2.54dpi)
        31 => 1.0,
        _ => f64::NAN,
    }
}
