//@ target: crates/compiler/src/lexer.rs
//@ module: verif_kani_support
//@ props: *
//! Constructors for symbolic lexers. `Lexer`/`Token` fields are private to
//! lexer.rs; a child module may use them without making anything pub.

pub(crate) const MAX_BUF: usize = 4;

/// A `codemap::Span` [lo, hi) without a CodeMap. Span is two `u32` positions; the
/// field order is validated through the public API (`len`) on every call.
pub(crate) fn span_of(lo: u32, hi: u32) -> Span {
    assert!(lo <= hi);
    let s: Span = unsafe { std::mem::transmute::<[u32; 2], Span>([lo, hi]) };
    if s.len() == (hi - lo) as u64 && s.low() <= s.high() {
        s
    } else {
        unsafe { std::mem::transmute::<[u32; 2], Span>([hi, lo]) }
    }
}

pub(crate) fn token(kind: char, pos: u32) -> Token {
    Token { kind, pos }
}

pub(crate) fn token_pos(t: &Token) -> u32 {
    t.pos
}

pub(crate) fn lexer_from_tokens(buf: Vec<Token>, span: Span, is_expanded: bool) -> Lexer {
    Lexer::new(buf, span, is_expanded)
}

pub(crate) fn lexer_buf(l: &Lexer) -> &Vec<Token> {
    &l.buf
}

pub(crate) fn lexer_entire_span(l: &Lexer) -> Span {
    l.entire_span
}

pub(crate) fn lexer_is_expanded(l: &Lexer) -> bool {
    l.is_expanded
}

/// Symbolic token buffer of symbolic length <= MAX_BUF with symbolic kinds (any
/// `char`) and positions. Built as one allocation that is then truncated
/// (`Token` is `Copy`, so no drop loop): pushing in a loop costs CBMC minutes.
pub(crate) fn any_tokens() -> Vec<Token> {
    let len: usize = kani::any();
    kani::assume(len <= MAX_BUF);
    let arr: [Token; MAX_BUF] = [
        Token { kind: kani::any(), pos: kani::any() },
        Token { kind: kani::any(), pos: kani::any() },
        Token { kind: kani::any(), pos: kani::any() },
        Token { kind: kani::any(), pos: kani::any() },
    ];
    let mut buf = Vec::from(arr);
    buf.truncate(len);
    buf
}

/// The lexer's data invariant (what `new_from_file` / `new_from_string` establish,
/// see C19): unless the lexer is "expanded", every token lies inside the span:
/// `pos + len_utf8(kind) <= entire_span.len()`.
pub(crate) fn lexer_span_ok(l: &Lexer) -> bool {
    if l.is_expanded {
        return true;
    }
    let n = l.entire_span.len();
    let mut i = 0;
    let mut ok = true;
    while i < MAX_BUF {
        if i < l.buf.len() {
            let t = l.buf[i];
            ok = ok && (t.pos as u64 + t.kind.len_utf8() as u64 <= n);
        }
        i += 1;
    }
    ok
}

/// Arbitrary lexer state: symbolic buffer (<= MAX_BUF tokens), symbolic cursor
/// (any usize, not only <= len), symbolic span.
pub(crate) fn any_lexer() -> Lexer {
    let buf = any_tokens();
    let lo: u32 = kani::any();
    let hi: u32 = kani::any();
    kani::assume(lo <= hi);
    let mut l = Lexer::new(buf, span_of(lo, hi), kani::any());
    l.cursor = kani::any();
    l
}

/// Lexer whose cursor satisfies the scanners' well-formedness predicate
/// (`cursor <= buf.len()`), as in the Verus prelude's `wf()`, and the span invariant.
pub(crate) fn any_wf_lexer() -> Lexer {
    let l = any_lexer();
    kani::assume(l.cursor <= l.buf.len());
    kani::assume(lexer_span_ok(&l));
    l
}

/// The alphabet of C18/C19: every newline spelling plus a one-byte and a two-byte
/// character. All 156 strings of length <= 3 over it, as literals (building strings
/// at run time costs CBMC minutes in `str::from_utf8`; literals decode in milliseconds).
pub(crate) const N_SMALL_STRINGS: usize = 156;
pub(crate) const SMALL_STRINGS: [&str; 156] = [
    "",
    "a",
    "\n",
    "\r",
    "\x0C",
    "é",
    "aa",
    "a\n",
    "a\r",
    "a\x0C",
    "aé",
    "\na",
    "\n\n",
    "\n\r",
    "\n\x0C",
    "\né",
    "\ra",
    "\r\n",
    "\r\r",
    "\r\x0C",
    "\ré",
    "\x0Ca",
    "\x0C\n",
    "\x0C\r",
    "\x0C\x0C",
    "\x0Cé",
    "éa",
    "é\n",
    "é\r",
    "é\x0C",
    "éé",
    "aaa",
    "aa\n",
    "aa\r",
    "aa\x0C",
    "aaé",
    "a\na",
    "a\n\n",
    "a\n\r",
    "a\n\x0C",
    "a\né",
    "a\ra",
    "a\r\n",
    "a\r\r",
    "a\r\x0C",
    "a\ré",
    "a\x0Ca",
    "a\x0C\n",
    "a\x0C\r",
    "a\x0C\x0C",
    "a\x0Cé",
    "aéa",
    "aé\n",
    "aé\r",
    "aé\x0C",
    "aéé",
    "\naa",
    "\na\n",
    "\na\r",
    "\na\x0C",
    "\naé",
    "\n\na",
    "\n\n\n",
    "\n\n\r",
    "\n\n\x0C",
    "\n\né",
    "\n\ra",
    "\n\r\n",
    "\n\r\r",
    "\n\r\x0C",
    "\n\ré",
    "\n\x0Ca",
    "\n\x0C\n",
    "\n\x0C\r",
    "\n\x0C\x0C",
    "\n\x0Cé",
    "\néa",
    "\né\n",
    "\né\r",
    "\né\x0C",
    "\néé",
    "\raa",
    "\ra\n",
    "\ra\r",
    "\ra\x0C",
    "\raé",
    "\r\na",
    "\r\n\n",
    "\r\n\r",
    "\r\n\x0C",
    "\r\né",
    "\r\ra",
    "\r\r\n",
    "\r\r\r",
    "\r\r\x0C",
    "\r\ré",
    "\r\x0Ca",
    "\r\x0C\n",
    "\r\x0C\r",
    "\r\x0C\x0C",
    "\r\x0Cé",
    "\réa",
    "\ré\n",
    "\ré\r",
    "\ré\x0C",
    "\réé",
    "\x0Caa",
    "\x0Ca\n",
    "\x0Ca\r",
    "\x0Ca\x0C",
    "\x0Caé",
    "\x0C\na",
    "\x0C\n\n",
    "\x0C\n\r",
    "\x0C\n\x0C",
    "\x0C\né",
    "\x0C\ra",
    "\x0C\r\n",
    "\x0C\r\r",
    "\x0C\r\x0C",
    "\x0C\ré",
    "\x0C\x0Ca",
    "\x0C\x0C\n",
    "\x0C\x0C\r",
    "\x0C\x0C\x0C",
    "\x0C\x0Cé",
    "\x0Céa",
    "\x0Cé\n",
    "\x0Cé\r",
    "\x0Cé\x0C",
    "\x0Céé",
    "éaa",
    "éa\n",
    "éa\r",
    "éa\x0C",
    "éaé",
    "é\na",
    "é\n\n",
    "é\n\r",
    "é\n\x0C",
    "é\né",
    "é\ra",
    "é\r\n",
    "é\r\r",
    "é\r\x0C",
    "é\ré",
    "é\x0Ca",
    "é\x0C\n",
    "é\x0C\r",
    "é\x0C\x0C",
    "é\x0Cé",
    "ééa",
    "éé\n",
    "éé\r",
    "éé\x0C",
    "ééé",
];
