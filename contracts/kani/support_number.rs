//@ target: crates/compiler/src/value/number.rs
//@ module: verif_kani_support
//@ props: *
//! Contract of `Number::convert` used at its call sites, and the constants that
//! replace `epsilon()` / `inverse_epsilon()` (CBMC models `powi` imprecisely,
//! DESIGN E-K3; the replay shim checks natively that the constants are exact).
use crate::unit::verif_kani_support::table_model;

/// `Number::convert` as a contract: the precondition is the assertion (a missing
/// table entry is the panic `UNIT_CONVERSION_TABLE[to][from]`), the postcondition
/// is `self * table[to][from]`. The first `if` is the real function's own.
pub(crate) fn convert_contract(this: Number, from: &Unit, to: &Unit) -> Number {
    if from == &Unit::None || to == &Unit::None || from == to {
        return this;
    }
    let f = table_model(to, from);
    assert!(f.is_some(), "Number::convert.requires: no conversion table entry for this pair of units");
    Number(this.0 * f.unwrap())
}

/// The factor the contract multiplies by (1 when convert returns early).
pub(crate) fn convert_factor_spec(from: &Unit, to: &Unit) -> Option<f64> {
    if from == &Unit::None || to == &Unit::None || from == to {
        Some(1.0)
    } else {
        table_model(to, from)
    }
}

pub(crate) fn epsilon_const() -> f64 {
    1e-11
}

pub(crate) fn inverse_epsilon_const() -> f64 {
    1e11
}

//@ ob: id=C08/N/table_model_matches_real_table kind=native-check fns=UNIT_CONVERSION_TABLE,KNOWN_COMPATIBILITIES,epsilon,inverse_epsilon also=C01,C07,C09,C16
//@ desc: validation of the mechanical extraction, run natively on every check that uses it: for all 41x41 unit pairs the generated match returns bit-for-bit what the real Lazy<HashMap> table holds (same keys, same f64 bits); the compatibility-set model agrees with the real HashSets; epsilon()/inverse_epsilon() equal the constants 1e-11/1e11 used in the harnesses
pub(crate) fn native_table_model_matches_real_table() {
    use crate::unit::verif_kani_support::{compat_class_model, compat_set_contains_model, unit_of, N_ALL};
    use crate::unit::{known_compatibilities_by_unit, UNIT_CONVERSION_TABLE};
    let mut entries = 0usize;
    let mut a = 0u8;
    while a < N_ALL {
        let mut b = 0u8;
        while b < N_ALL {
            let (ua, ub) = (unit_of(a, 1), unit_of(b, 1));
            let real = UNIT_CONVERSION_TABLE.get(&ua).and_then(|m| m.get(&ub)).copied();
            let model = table_model(&ua, &ub);
            assert!(real.map(f64::to_bits) == model.map(f64::to_bits), "table model differs from UNIT_CONVERSION_TABLE");
            if real.is_some() {
                entries += 1;
            }
            let real_set = known_compatibilities_by_unit(&ua);
            let model_class = compat_class_model(&ua);
            assert!(real_set.is_some() == model_class.is_some(), "compatibility class model differs");
            if let (Some(s), Some(c)) = (real_set, model_class) {
                assert!(s.contains(&ub) == compat_set_contains_model(c, &ub), "compatibility set model differs from KNOWN_COMPATIBILITIES");
            }
            b += 1;
        }
        a += 1;
    }
    let total: usize = UNIT_CONVERSION_TABLE.values().map(|m| m.len()).sum();
    assert!(total == entries, "real table has entries outside the enumerated unit domain");
    assert!(epsilon().to_bits() == epsilon_const().to_bits(), "epsilon() is not 1e-11");
    assert!(inverse_epsilon().to_bits() == inverse_epsilon_const().to_bits(), "inverse_epsilon() is not 1e11");
}
