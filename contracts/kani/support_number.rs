//@ target: crates/compiler/src/value/number.rs
//@ module: verif_kani_support
//@ props: *
//! Contract of `Number::convert` used at its call sites, and the constants that
//! replace `epsilon()` / `inverse_epsilon()` (CBMC models `powi` imprecisely,
//! DESIGN E-K3; the replay shim checks natively that the constants are exact).
use crate::unit::verif_kani_support::table_model;

/// `Number::convert` as a contract: the precondition is the assertion (a missing
/// table entry is the panic `UNIT_CONVERSION_TABLE[to][from]`), the postcondition
/// is `self * table[to][from]`. The first `if` is the real function's own.
pub(crate) fn convert_contract(this: Number, from: &Unit, to: &Unit) -> Number {
    if from == &Unit::None || to == &Unit::None || from == to {
        return this;
    }
    let f = table_model(to, from);
    assert!(f.is_some(), "Number::convert.requires: no conversion table entry for this pair of units");
    Number(this.0 * f.unwrap())
}

/// The factor the contract multiplies by (1 when convert returns early).
pub(crate) fn convert_factor_spec(from: &Unit, to: &Unit) -> Option<f64> {
    if from == &Unit::None || to == &Unit::None || from == to {
        Some(1.0)
    } else {
        table_model(to, from)
    }
}

pub(crate) fn epsilon_const() -> f64 {
    1e-11
}

pub(crate) fn inverse_epsilon_const() -> f64 {
    1e11
}
