//@ target: crates/compiler/src/options.rs
//@ module: verif_kani_c18
//@ props: C18
//! Syntax selection by file extension (C18 mech 5).

fn check(p: &str, want: InputSyntax) {
    assert!(InputSyntax::for_path(Path::new(p)) == want, "C18/K/syntax_for_path");
}

//@ ob: id=C18/K/syntax_for_path kind=K-bounded fns=InputSyntax::for_path bound="10 concrete paths"
//@ desc: the input syntax follows the file extension, case-insensitively: .sass is indented, .css is plain CSS, everything else (including no extension, dotted basenames and directories named like an extension) is SCSS
#[kani::proof]
#[kani::unwind(12)]
fn c18_syntax_for_path() {
    check("a.sass", InputSyntax::Sass);
    check("a.SASS", InputSyntax::Sass);
    check("dir/b.css", InputSyntax::Css);
    check("b.Css", InputSyntax::Css);
    check("c.scss", InputSyntax::Scss);
    check("c", InputSyntax::Scss);
    check("x.sass.scss", InputSyntax::Scss);
    check("x.css.sass", InputSyntax::Sass);
    check("sass/file", InputSyntax::Scss);
    check(".css", InputSyntax::Scss);
    kani::cover!(true);
}
