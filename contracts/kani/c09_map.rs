//@ target: crates/compiler/src/value/map.rs
//@ module: verif_kani_c09
//@ props: C09
//! Read-only operations of `SassMap` (C09 mech 3) on concrete small maps. Only the
//! operations that never drop a `Value` are reachable for Kani (`get_ref`, `contains`,
//! `iter`, `is_empty`, `==`): `insert`, `remove`, `merge`, `get`, `keys`, `values`,
//! `as_list` can drop a value, and `Value`'s drop glue ICEs kani-compiler (DESIGN E-K17).
use crate::common::QuoteKind;
use crate::lexer::verif_kani_support::span_of;
use crate::unit::Unit;
use crate::value::verif_kani_support::{convert_contract, epsilon_const, inverse_epsilon_const};
use crate::value::{Number, SassNumber};
use std::mem::ManuallyDrop;

fn num(n: f64, u: Unit) -> Value {
    Value::Dimension(SassNumber { num: Number(n), unit: u, as_slash: None })
}
fn s(t: &str, q: QuoteKind) -> Value {
    Value::String(t.to_owned(), q)
}
fn key(v: Value) -> Spanned<Value> {
    Spanned { node: v, span: span_of(0, 0) }
}

//@ ob: id=C09/K/map_lookup_agrees_with_eq kind=K-bounded fns=SassMap::get_ref,SassMap::contains,SassMap::is_empty,SassMap::iter bound="one concrete map {null: true, 1in: false, 'a': 1, 96px: 2} and six probes"
//@ desc: get_ref/contains find an entry exactly when some key is == to the probe (unit conversion and quote-insensitive strings included) and return the FIRST such entry in insertion order; iteration order is insertion order
#[kani::proof]
#[kani::unwind(6)]
#[kani::stub(crate::value::number::Number::convert, convert_contract)]
#[kani::stub(crate::value::number::epsilon, epsilon_const)]
#[kani::stub(crate::value::number::inverse_epsilon, inverse_epsilon_const)]
fn c09_map_lookup_agrees_with_eq() {
    let m = ManuallyDrop::new(SassMap::new_with(vec![
        (key(Value::Null), Value::True),
        (key(num(1.0, Unit::In)), Value::False),
        (key(s("a", QuoteKind::Quoted)), num(1.0, Unit::None)),
        (key(num(96.0, Unit::Px)), num(2.0, Unit::None)),
    ]));
    assert!(!m.is_empty(), "C09/K/map_lookup_agrees_with_eq: is_empty");
    // 96px == 1in: the probe finds the FIRST equal key (1in -> false), not the later 96px entry
    let p1 = ManuallyDrop::new(num(96.0, Unit::Px));
    assert!(matches!(m.get_ref(&p1), Some(Value::False)), "C09/K/map_lookup_agrees_with_eq: first equal key wins");
    assert!(m.contains(&p1), "C09/K/map_lookup_agrees_with_eq: contains");
    let p2 = ManuallyDrop::new(num(2.54, Unit::Cm));
    assert!(matches!(m.get_ref(&p2), Some(Value::False)), "C09/K/map_lookup_agrees_with_eq: 2.54cm == 1in");
    // unquoted a == quoted "a"
    let p3 = ManuallyDrop::new(s("a", QuoteKind::None));
    assert!(matches!(m.get_ref(&p3), Some(Value::Dimension(_))) && m.contains(&p3), "C09/K/map_lookup_agrees_with_eq: quote-insensitive key");
    let p4 = ManuallyDrop::new(Value::Null);
    assert!(matches!(m.get_ref(&p4), Some(Value::True)), "C09/K/map_lookup_agrees_with_eq: null key");
    // no key is == to these
    let p5 = ManuallyDrop::new(num(1.0, Unit::None));
    assert!(m.get_ref(&p5).is_none() && !m.contains(&p5), "C09/K/map_lookup_agrees_with_eq: unitless 1 is not 1in");
    let p6 = ManuallyDrop::new(s("b", QuoteKind::None));
    assert!(m.get_ref(&p6).is_none() && !m.contains(&p6), "C09/K/map_lookup_agrees_with_eq: absent key");
    // insertion order
    let mut it = m.iter();
    assert!(matches!(it.next(), Some((k, _)) if matches!(k.node, Value::Null)), "C09/K/map_lookup_agrees_with_eq: order 0");
    assert!(matches!(it.next(), Some((k, _)) if matches!(k.node, Value::Dimension(_))), "C09/K/map_lookup_agrees_with_eq: order 1");
    assert!(matches!(it.next(), Some((k, _)) if matches!(k.node, Value::String(..))), "C09/K/map_lookup_agrees_with_eq: order 2");
    kani::cover!(true);
}

// SassMap::eq (order-insensitive comparison through a nested `any` closure) was tried on four
// two-entry maps and does not finish in CBMC (> 15 min); not registered.
