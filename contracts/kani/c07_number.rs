//@ target: crates/compiler/src/value/number.rs
//@ module: verif_kani_c07
//@ props: C07 C09
//! Sass number rules on the real number.rs, over ALL f64 bit patterns (loop-free
//! harnesses: complete proofs). `epsilon()`/`inverse_epsilon()` are replaced by
//! their exact constants (CBMC's `powi` model is imprecise, DESIGN E-K3).
use super::verif_kani_support::{epsilon_const, inverse_epsilon_const};

/// `f64::round` as an uninterpreted total function (Ackermann-style memo): the
/// equality/ordering laws below do not depend on what round() returns, only on it
/// being a function of its argument. CBMC's bit-level model of round() applied to
/// two symbolic products does not terminate within the limits (measured, DESIGN
/// E-K13); `c07_fuzzy_as_int` and `c07_number_predicates` use the real round().
static mut ROUND_KEYS: [u64; 4] = [0; 4];
static mut ROUND_VALS: [f64; 4] = [0.0; 4];
static mut ROUND_USED: usize = 0;

fn round_uninterpreted(x: f64) -> f64 {
    unsafe {
        let k = x.to_bits();
        if ROUND_USED > 0 && ROUND_KEYS[0] == k {
            return ROUND_VALS[0];
        }
        if ROUND_USED > 1 && ROUND_KEYS[1] == k {
            return ROUND_VALS[1];
        }
        if ROUND_USED > 2 && ROUND_KEYS[2] == k {
            return ROUND_VALS[2];
        }
        if ROUND_USED > 3 && ROUND_KEYS[3] == k {
            return ROUND_VALS[3];
        }
        let v: f64 = kani::any();
        assert!(ROUND_USED < 4, "round memo exhausted (harness bug)");
        ROUND_KEYS[ROUND_USED] = k;
        ROUND_VALS[ROUND_USED] = v;
        ROUND_USED += 1;
        v
    }
}

const EPS: f64 = 1e-11;
const INV: f64 = 1e11;

//@ ob: id=C07/K/fuzzy_equals_definition kind=K-contract tier=thorough fns=fuzzy_equals
//@ desc: fuzzy_equals(a,b) is exactly: a == b, or |a-b| <= 1e-11 and round(a*1e11) == round(b*1e11) (the Sass/dart-sass definition); hence never true beyond the 1e-11 tolerance and never true for NaN
#[kani::proof]
#[kani::stub(epsilon, epsilon_const)]
#[kani::stub(inverse_epsilon, inverse_epsilon_const)]
#[kani::stub(f64::round, round_uninterpreted)]
fn c07_fuzzy_equals_definition() {
    let a: f64 = kani::any();
    let b: f64 = kani::any();
    let e = fuzzy_equals(a, b);
    let spec = a == b || ((a - b).abs() <= EPS && (a * INV).round() == (b * INV).round());
    assert!(e == spec, "C07/K/fuzzy_equals_definition");
    if (a - b).abs() > EPS {
        assert!(!e, "C07/K/fuzzy_equals_definition: beyond tolerance");
    }
    if a.is_nan() || b.is_nan() {
        assert!(!e, "C07/K/fuzzy_equals_definition: NaN");
    }
    kani::cover!(e && a != b);
    kani::cover!(!e && (a - b).abs() <= EPS);
}

//@ ob: id=C07/K/fuzzy_equals_definition_one_operand kind=K-full fns=fuzzy_equals also=C09 bound="left operand: all doubles; right operand: 0, 1, -2.5, 1e6, 0.1"
//@ desc: quick-tier form of fuzzy_equals_definition: with one operand ranging over all doubles and the other over five concrete magnitudes, fuzzy_equals is exactly `a == b || (|a-b| <= 1e-11 && round(a*1e11) == round(b*1e11))`, in both argument orders
#[kani::proof]
#[kani::stub(epsilon, epsilon_const)]
#[kani::stub(inverse_epsilon, inverse_epsilon_const)]
fn c07_fuzzy_equals_definition_one_operand() {
    let a: f64 = kani::any();
    let which: u8 = kani::any();
    kani::assume(which < 5);
    let b = match which {
        0 => 0.0,
        1 => 1.0,
        2 => -2.5,
        3 => 1e6,
        _ => 0.1,
    };
    let spec = a == b || ((a - b).abs() <= EPS && (a * INV).round() == (b * INV).round());
    assert!(fuzzy_equals(a, b) == spec, "C07/K/fuzzy_equals_definition_one_operand");
    assert!(fuzzy_equals(b, a) == spec, "C07/K/fuzzy_equals_definition_one_operand: reversed");
    if (a - b).abs() > EPS {
        assert!(!fuzzy_equals(a, b), "C07/K/fuzzy_equals_definition_one_operand: beyond tolerance");
    }
    kani::cover!(spec && a != b);
    kani::cover!(!spec && (a - b).abs() <= EPS);
}

//@ ob: id=C07/K/fuzzy_equals_symmetric kind=K-contract tier=thorough fns=fuzzy_equals also=C09
//@ desc: fuzzy_equals(a,b) == fuzzy_equals(b,a) for all doubles
#[kani::proof]
#[kani::stub(epsilon, epsilon_const)]
#[kani::stub(inverse_epsilon, inverse_epsilon_const)]
#[kani::stub(f64::round, round_uninterpreted)]
fn c07_fuzzy_equals_symmetric() {
    let a: f64 = kani::any();
    let b: f64 = kani::any();
    assert!(fuzzy_equals(a, b) == fuzzy_equals(b, a), "C07/K/fuzzy_equals_symmetric");
    kani::cover!(fuzzy_equals(a, b) && a != b);
}

//@ ob: id=C07/K/fuzzy_equals_reflexive kind=K-contract tier=thorough fns=fuzzy_equals,Number::eq also=C09
//@ desc: fuzzy_equals is reflexive on every non-NaN double, implied by ==, false whenever an operand is NaN, and `Number == Number` is fuzzy_equals
#[kani::proof]
#[kani::stub(epsilon, epsilon_const)]
#[kani::stub(inverse_epsilon, inverse_epsilon_const)]
#[kani::stub(f64::round, round_uninterpreted)]
fn c07_fuzzy_equals_reflexive() {
    let a: f64 = kani::any();
    let b: f64 = kani::any();
    if !a.is_nan() {
        assert!(fuzzy_equals(a, a), "C07/K/fuzzy_equals_reflexive: reflexive");
    } else {
        assert!(!fuzzy_equals(a, b) && !fuzzy_equals(b, a), "C07/K/fuzzy_equals_reflexive: NaN");
    }
    if a == b {
        assert!(fuzzy_equals(a, b), "C07/K/fuzzy_equals_reflexive: == implies fuzzy");
    }
    assert!((Number(a) == Number(b)) == fuzzy_equals(a, b), "C07/K/fuzzy_equals_reflexive: Number::eq");
    kani::cover!(a.is_nan());
    kani::cover!(a == b);
}

//@ ob: id=C07/K/fuzzy_order_definition kind=K-contract tier=thorough fns=fuzzy_less_than,fuzzy_less_than_or_equals
//@ desc: fuzzy < is `<` minus fuzzy equality and fuzzy <= is `<` or fuzzy equality (so a<=b iff a<b or a~b), NaN is unordered
#[kani::proof]
#[kani::stub(epsilon, epsilon_const)]
#[kani::stub(inverse_epsilon, inverse_epsilon_const)]
#[kani::stub(f64::round, round_uninterpreted)]
fn c07_fuzzy_order_definition() {
    let a: f64 = kani::any();
    let b: f64 = kani::any();
    let e = fuzzy_equals(a, b);
    let lt = fuzzy_less_than(a, b);
    let le = fuzzy_less_than_or_equals(a, b);
    assert!(lt == (a < b && !e), "C07/K/fuzzy_order_definition: lt");
    assert!(le == (a < b || e), "C07/K/fuzzy_order_definition: le");
    assert!(!(lt && e), "C07/K/fuzzy_order_definition: lt excludes equality");
    if a.is_nan() || b.is_nan() {
        assert!(!lt && !le, "C07/K/fuzzy_order_definition: NaN is unordered");
    }
    kani::cover!(a < b && e);
}

//@ ob: id=C07/K/fuzzy_order_trichotomy kind=K-contract tier=thorough fns=fuzzy_less_than,fuzzy_equals
//@ desc: on non-NaN doubles exactly one of a<b, a~b, b<a holds (ordering treats numbers within tolerance as equal)
#[kani::proof]
#[kani::stub(epsilon, epsilon_const)]
#[kani::stub(inverse_epsilon, inverse_epsilon_const)]
#[kani::stub(f64::round, round_uninterpreted)]
fn c07_fuzzy_order_trichotomy() {
    let a: f64 = kani::any();
    let b: f64 = kani::any();
    kani::assume(!a.is_nan() && !b.is_nan());
    let e = fuzzy_equals(a, b);
    let lt = fuzzy_less_than(a, b);
    let gt = fuzzy_less_than(b, a);
    let n = (lt as u8) + (e as u8) + (gt as u8);
    assert!(n == 1, "C07/K/fuzzy_order_trichotomy");
    kani::cover!(e && a != b);
}

//@ ob: id=C07/K/fuzzy_as_int kind=K-full fns=fuzzy_as_int
//@ desc: fuzzy_as_int is None for non-finite input; Some(i) exactly when x is fuzzy-equal to round(x), and then (for |x| < 2^63, where the cast cannot saturate) i == round(x) and fuzzy_equals(x, i as f64)
#[kani::proof]
#[kani::stub(epsilon, epsilon_const)]
#[kani::stub(inverse_epsilon, inverse_epsilon_const)]
fn c07_fuzzy_as_int() {
    let x: f64 = kani::any();
    let r = fuzzy_as_int(x);
    if !x.is_finite() {
        assert!(r.is_none(), "C07/K/fuzzy_as_int: non-finite");
    } else {
        assert!(r.is_some() == fuzzy_equals(x, x.round()), "C07/K/fuzzy_as_int: integer check agrees with tolerance");
        if let Some(i) = r {
            if x.abs() < 9223372036854775808.0 {
                assert!(i as f64 == x.round(), "C07/K/fuzzy_as_int: value");
                assert!(fuzzy_equals(x, i as f64), "C07/K/fuzzy_as_int: within tolerance");
            }
        }
    }
    kani::cover!(r.is_some() && x != x.round());
    kani::cover!(r.is_none() && x.is_finite());
}

//@ ob: id=C07/K/number_predicates kind=K-full fns=Number::is_zero,Number::is_one,Number::is_positive,Number::is_negative,Number::min,Number::max,Number::clamp
//@ desc: is_zero/is_one are fuzzy equality with 0/1; is_positive/is_negative are the sign bit minus fuzzy zero (never both); min/max return one of the operands, the other operand when either is NaN; clamp stays within [min,max]
#[kani::proof]
#[kani::stub(epsilon, epsilon_const)]
#[kani::stub(inverse_epsilon, inverse_epsilon_const)]
fn c07_number_predicates() {
    let a: f64 = kani::any();
    let b: f64 = kani::any();
    let n = Number(a);
    assert!(n.is_zero() == fuzzy_equals(a, 0.0), "C07/K/number_predicates: is_zero");
    assert!(n.is_one() == fuzzy_equals(a, 1.0), "C07/K/number_predicates: is_one");
    assert!(n.is_positive() == (a.is_sign_positive() && !fuzzy_equals(a, 0.0)), "C07/K/number_predicates: is_positive");
    assert!(n.is_negative() == (a.is_sign_negative() && !fuzzy_equals(a, 0.0)), "C07/K/number_predicates: is_negative");
    assert!(!(n.is_positive() && n.is_negative()), "C07/K/number_predicates: sign exclusive");
    let mn = n.min(Number(b)).0;
    let mx = n.max(Number(b)).0;
    if a.is_nan() || b.is_nan() {
        assert!(mn.to_bits() == b.to_bits() && mx.to_bits() == b.to_bits(), "C07/K/number_predicates: min/max with NaN return the right operand");
    } else {
        assert!(mn <= a && mn <= b && (mn == a || mn == b), "C07/K/number_predicates: min");
        assert!(mx >= a && mx >= b && (mx == a || mx == b), "C07/K/number_predicates: max");
    }
    let lo: f64 = kani::any();
    let hi: f64 = kani::any();
    kani::assume(lo <= hi);
    if !a.is_nan() {
        let c = n.clamp(lo, hi).0;
        assert!(lo <= c && c <= hi, "C07/K/number_predicates: clamp range");
        if lo <= a && a <= hi {
            assert!(c == a, "C07/K/number_predicates: clamp identity inside range");
        }
    }
    kani::cover!(n.is_negative());
    kani::cover!(mn != mx);
}

/// Assumed contract of `f64::rem_euclid` (CBMC's fmod model is wrong for
/// subnormal/huge quotients, DESIGN E-K4): for finite n and non-zero finite d the
/// result r satisfies 0 <= r <= |d| (r == |d| only by rounding), NaN otherwise.
fn rem_euclid_contract(n: f64, d: f64) -> f64 {
    if n.is_nan() || d.is_nan() || n.is_infinite() || d == 0.0 {
        return f64::NAN;
    }
    if d.is_infinite() {
        // n rem_euclid +-inf: n when n >= 0, otherwise n + |d| = inf
        return if n >= 0.0 { n } else { f64::INFINITY };
    }
    let r: f64 = kani::any();
    kani::assume(r >= 0.0 && r <= d.abs());
    r
}

//@ ob: id=C07/K/modulo_sign_of_divisor kind=K-contract fns=modulo,real_mod,Number::rem
//@ desc: relative to the assumed contract of f64::rem_euclid: `%` yields NaN exactly for a zero divisor (or NaN/infinite dividend, NaN divisor); otherwise the result is zero or has the sign of the divisor and its magnitude does not exceed the divisor's
#[kani::proof]
#[kani::stub(f64::rem_euclid, rem_euclid_contract)]
fn c07_modulo_sign_of_divisor() {
    let n1: f64 = kani::any();
    let n2: f64 = kani::any();
    // one call only: the contract's result is nondeterministic
    let r = (Number(n1) % Number(n2)).0;
    if n2 == 0.0 {
        assert!(r.is_nan(), "C07/K/modulo_sign_of_divisor: zero divisor gives NaN");
    } else if n1.is_finite() && n2.is_finite() {
        assert!(!r.is_nan(), "C07/K/modulo_sign_of_divisor: finite operands give a number");
        assert!(r == 0.0 || (r > 0.0) == (n2 > 0.0), "C07/K/modulo_sign_of_divisor: sign of the divisor");
        assert!(r.abs() <= n2.abs(), "C07/K/modulo_sign_of_divisor: magnitude bounded by divisor");
    }
    kani::cover!(r < 0.0);
    kani::cover!(r > 0.0);
}
