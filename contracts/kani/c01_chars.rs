//@ target: crates/compiler/src/utils/chars.rs
//@ module: verif_kani_c01
//@ props: C01
//! Contracts the Verus prelude assumes for the character helpers and for the
//! std functions it specifies, over ALL `char` / `u32` values (loop-free: K-full).

//@ ob: id=C01/K/chars_as_hex kind=K-full fns=as_hex
//@ desc: for every hex digit char, as_hex returns a value < 16 and never reaches unreachable!()
#[kani::proof]
fn c01_chars_as_hex() {
    let c: char = kani::any();
    kani::assume(c.is_ascii_hexdigit());
    let v = as_hex(c);
    assert!(v < 16, "C01/K/chars_as_hex");
    kani::cover!(v == 15);
}

//@ ob: id=C01/K/chars_hex_char_for kind=K-full fns=hex_char_for
//@ desc: for every number < 16, hex_char_for does not panic (char::from_u32(..).unwrap()) and returns a hex digit that as_hex maps back
#[kani::proof]
fn c01_chars_hex_char_for() {
    let n: u32 = kani::any();
    kani::assume(n < 0x10);
    let c = hex_char_for(n);
    assert!(c.is_ascii_hexdigit() && as_hex(c) == n, "C01/K/chars_hex_char_for");
    kani::cover!(n == 15);
}

//@ ob: id=C01/K/std_char_from_u32 kind=K-full fns=core::char::from_u32,char::is_ascii_digit
//@ desc: the assumed Verus specifications of std: from_u32(i) is Some exactly for scalar values and then `as u32` gives i back; is_ascii_digit(c) == ('0' <= c <= '9')
#[kani::proof]
fn c01_std_char_from_u32() {
    let i: u32 = kani::any();
    let r = std::char::from_u32(i);
    assert!(r.is_some() == (i < 0xD800 || (0xE000 <= i && i <= 0x10FFFF)), "C01/K/std_char_from_u32: domain");
    if let Some(c) = r {
        assert!(c as u32 == i, "C01/K/std_char_from_u32: value");
        assert!(c.is_ascii_digit() == ('0' <= c && c <= '9'), "C01/K/std_char_from_u32: is_ascii_digit");
    }
    kani::cover!(r.is_none());
    kani::cover!(r.is_some());
}

//@ ob: id=C01/K/chars_opposite_bracket kind=K-full fns=opposite_bracket
//@ desc: opposite_bracket is total on the six brackets and an involution
#[kani::proof]
fn c01_chars_opposite_bracket() {
    let c: char = kani::any();
    kani::assume(matches!(c, '(' | '{' | '[' | ')' | '}' | ']'));
    let o = crate::utils::opposite_bracket(c);
    assert!(crate::utils::opposite_bracket(o) == c && o != c, "C01/K/chars_opposite_bracket");
    kani::cover!(c == '[');
}
