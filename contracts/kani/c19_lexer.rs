//@ target: crates/compiler/src/lexer.rs
//@ module: verif_kani_c19
//@ props: C19
//! Location bounds of parser errors: every span the lexer hands out lies inside
//! the span of the text it was built from, and `Span::subspan`'s assertions cannot
//! fire, for every lexer state satisfying the data invariant `lexer_span_ok`
//! (established by the constructors: C19/K/lexer_new_establishes_invariant).
use super::verif_kani_support::*;

//@ ob: id=C19/K/lexer_spans_in_bounds kind=K-bounded fns=Lexer::span_at_index,Lexer::current_span,Lexer::prev_span,Lexer::span_from bound="buffer <= 4 tokens, symbolic contents, positions and span (functions are loop-free)"
//@ desc: for any well-formed lexer (cursor <= len, every token inside entire_span unless expanded) and any start <= cursor, current_span/prev_span/span_from do not panic and return a span contained in entire_span; an expanded lexer returns entire_span
#[kani::proof]
#[kani::unwind(6)]
fn c19_lexer_spans_in_bounds() {
    let l = any_wf_lexer();
    let whole = lexer_entire_span(&l);
    let cur = l.current_span();
    let prev = l.prev_span();
    let start: usize = kani::any();
    kani::assume(start <= l.cursor());
    let from = l.span_from(start);
    assert!(whole.contains(cur), "C19/K/lexer_spans_in_bounds: current_span");
    assert!(whole.contains(prev), "C19/K/lexer_spans_in_bounds: prev_span");
    assert!(whole.contains(from), "C19/K/lexer_spans_in_bounds: span_from");
    if lexer_is_expanded(&l) {
        assert!(cur == whole && prev == whole && from == whole, "C19/K/lexer_spans_in_bounds: expanded lexer reports the whole span");
    } else if l.cursor() < lexer_buf(&l).len() {
        let t = lexer_buf(&l)[l.cursor()];
        assert!(cur.len() == t.kind.len_utf8() as u64, "C19/K/lexer_spans_in_bounds: current_span covers exactly the current character");
        assert!(cur.low() - whole.low() == token_pos(&t) as u64, "C19/K/lexer_spans_in_bounds: current_span starts at the token's offset");
    }
    kani::cover!(!lexer_is_expanded(&l) && l.cursor() < lexer_buf(&l).len());
    kani::cover!(!lexer_is_expanded(&l) && l.cursor() == lexer_buf(&l).len() && l.cursor() > 0);
    kani::cover!(lexer_buf(&l).is_empty());
}

fn check_new_from_string(from: usize, to: usize) {
    let lo: u32 = kani::any();
    let hi: u32 = kani::any();
    kani::assume(lo <= hi);
    let span = span_of(lo, hi);
    let mut n = from;
    while n < to {
        let s = SMALL_STRINGS[n];
        let l = Lexer::new_from_string(s, span);
        assert!(l.cursor() == 0, "C19/K/lexer_new_establishes_invariant: cursor");
        assert!(lexer_is_expanded(&l) == (s.len() as u64 > (hi - lo) as u64), "C19/K/lexer_new_establishes_invariant: expanded flag");
        assert!(lexer_buf(&l).len() <= MAX_BUF, "C19/K/lexer_new_establishes_invariant: length");
        assert!(lexer_span_ok(&l), "C19/K/lexer_new_establishes_invariant: tokens inside span");
        n += 1;
    }
    kani::cover!(hi - lo >= 6);
    kani::cover!(hi - lo < 2);
}

//@ ob: id=C19/K/lexer_new_establishes_invariant_0 kind=K-bounded fns=Lexer::new_from_string,TokenLexer::next bound="strings 0..26 of the 156 strings of <= 3 chars over {a,\n,\r,\f,é}; symbolic span"
//@ desc: Lexer::new_from_string(s, span) yields cursor 0 and a lexer whose tokens all lie inside span unless it is marked expanded (s longer than span): the precondition of the span functions
#[kani::proof]
#[kani::unwind(28)]
fn c19_lexer_new_establishes_invariant_0() {
    check_new_from_string(0, 26);
}

//@ ob: id=C19/K/lexer_new_establishes_invariant_1 kind=K-bounded fns=Lexer::new_from_string,TokenLexer::next bound="strings 26..52 of the 156 strings of <= 3 chars over {a,\n,\r,\f,é}; symbolic span"
//@ desc: Lexer::new_from_string(s, span) yields cursor 0 and a lexer whose tokens all lie inside span unless it is marked expanded (s longer than span): the precondition of the span functions
#[kani::proof]
#[kani::unwind(28)]
fn c19_lexer_new_establishes_invariant_1() {
    check_new_from_string(26, 52);
}

//@ ob: id=C19/K/lexer_new_establishes_invariant_2 kind=K-bounded fns=Lexer::new_from_string,TokenLexer::next bound="strings 52..78 of the 156 strings of <= 3 chars over {a,\n,\r,\f,é}; symbolic span"
//@ desc: Lexer::new_from_string(s, span) yields cursor 0 and a lexer whose tokens all lie inside span unless it is marked expanded (s longer than span): the precondition of the span functions
#[kani::proof]
#[kani::unwind(28)]
fn c19_lexer_new_establishes_invariant_2() {
    check_new_from_string(52, 78);
}

//@ ob: id=C19/K/lexer_new_establishes_invariant_3 kind=K-bounded fns=Lexer::new_from_string,TokenLexer::next bound="strings 78..104 of the 156 strings of <= 3 chars over {a,\n,\r,\f,é}; symbolic span"
//@ desc: Lexer::new_from_string(s, span) yields cursor 0 and a lexer whose tokens all lie inside span unless it is marked expanded (s longer than span): the precondition of the span functions
#[kani::proof]
#[kani::unwind(28)]
fn c19_lexer_new_establishes_invariant_3() {
    check_new_from_string(78, 104);
}

//@ ob: id=C19/K/lexer_new_establishes_invariant_4 kind=K-bounded fns=Lexer::new_from_string,TokenLexer::next bound="strings 104..130 of the 156 strings of <= 3 chars over {a,\n,\r,\f,é}; symbolic span"
//@ desc: Lexer::new_from_string(s, span) yields cursor 0 and a lexer whose tokens all lie inside span unless it is marked expanded (s longer than span): the precondition of the span functions
#[kani::proof]
#[kani::unwind(28)]
fn c19_lexer_new_establishes_invariant_4() {
    check_new_from_string(104, 130);
}

//@ ob: id=C19/K/lexer_new_establishes_invariant_5 kind=K-bounded fns=Lexer::new_from_string,TokenLexer::next bound="strings 130..156 of the 156 strings of <= 3 chars over {a,\n,\r,\f,é}; symbolic span"
//@ desc: Lexer::new_from_string(s, span) yields cursor 0 and a lexer whose tokens all lie inside span unless it is marked expanded (s longer than span): the precondition of the span functions
#[kani::proof]
#[kani::unwind(28)]
fn c19_lexer_new_establishes_invariant_5() {
    check_new_from_string(130, 156);
}
