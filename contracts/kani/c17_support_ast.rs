//@ target: crates/compiler/src/ast/mod.rs
//@ module: verif_kani_c17_reexport
//@ props: C17
//! `ast::media` is a private module; the visitor-side harness reaches the media
//! semantics (`sat`, `mq`, `any_env`) through this re-export.
pub(crate) use super::media::verif_kani_c17::{any_env, mq, sat, Env};
