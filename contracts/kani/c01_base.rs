//@ target: crates/compiler/src/parse/base.rs
//@ module: verif_kani_c01
//@ props: C01
//! Contracts of the BaseParser default methods that Verus keeps `external_body`
//! (guarded-arm mutation, `str.chars()` loops, capturing closure), discharged on
//! the real default methods through a minimal implementor of the trait.
use crate::lexer::verif_kani_support::*;

struct TP {
    toks: Lexer,
}

impl BaseParser for TP {
    fn toks(&self) -> &Lexer {
        &self.toks
    }
    fn toks_mut(&mut self) -> &mut Lexer {
        &mut self.toks
    }
}

fn format_stub(_args: std::fmt::Arguments<'_>) -> String {
    String::new()
}

/// `is_name`/`is_name_start` walk the Unicode tables (`char::is_alphabetic`); the
/// frame contracts below do not depend on their value, so they are replaced by
/// a nondeterministic answer (over-approximation, as in the Verus prelude).
fn any_bool_of_char(_c: char) -> bool {
    kani::any()
}

fn frame_ok(p: &TP, before: &Vec<Token>, c0: usize) -> bool {
    lexer_buf(&p.toks) == before && p.toks.cursor() <= before.len() && p.toks.cursor() >= c0
}

//@ ob: id=C01/K/base_expect_char kind=K-bounded fns=BaseParser::expect_char,BaseParser::expect_char_with_message bound="buffer <= 4 tokens (functions are loop-free); format! stubbed"
//@ desc: Ok => cursor advanced by exactly 1 over a token equal to c; Err => cursor unchanged; buffer unchanged, wf kept (contract assumed by the Verus units)
#[kani::proof]
#[kani::unwind(6)]
#[kani::stub(alloc::fmt::format, format_stub)]
fn c01_base_expect_char() {
    let mut p = TP { toks: any_wf_lexer() };
    let before = lexer_buf(&p.toks).clone();
    let c0 = p.toks.cursor();
    let c: char = kani::any();
    let with_msg: bool = kani::any();
    let r = if with_msg { p.expect_char_with_message(c, "x") } else { p.expect_char(c) };
    assert!(frame_ok(&p, &before, c0), "C01/K/base_expect_char: frame");
    match r {
        Ok(()) => assert!(p.toks.cursor() == c0 + 1 && before[c0].kind == c, "C01/K/base_expect_char: ok"),
        Err(_) => assert!(p.toks.cursor() == c0, "C01/K/base_expect_char: err"),
    }
    kani::cover!(p.toks.cursor() == c0 + 1);
    kani::cover!(p.toks.cursor() == c0);
}

//@ ob: id=C01/K/base_scan_literal kind=K-bounded fns=BaseParser::scan,BaseParser::next_matches bound="buffer <= 4 tokens; literal `ab`"
//@ desc: scan(s) either consumes exactly s or restores the cursor; next_matches never moves the cursor; buffer unchanged
#[kani::proof]
#[kani::unwind(6)]
fn c01_base_scan_literal() {
    let mut p = TP { toks: any_wf_lexer() };
    let before = lexer_buf(&p.toks).clone();
    let c0 = p.toks.cursor();
    let m = p.next_matches("ab");
    assert!(p.toks.cursor() == c0 && lexer_buf(&p.toks) == &before, "C01/K/base_scan_literal: next_matches frame");
    let r = p.scan("ab");
    assert!(frame_ok(&p, &before, c0), "C01/K/base_scan_literal: frame");
    assert!(r == m, "C01/K/base_scan_literal: scan agrees with next_matches");
    if r {
        assert!(p.toks.cursor() == c0 + 2, "C01/K/base_scan_literal: consumed");
    } else {
        assert!(p.toks.cursor() == c0, "C01/K/base_scan_literal: restored");
    }
    kani::cover!(r);
    kani::cover!(!r);
}

//@ ob: id=C01/K/base_scan_ident_char kind=K-bounded fns=BaseParser::scan_ident_char bound="buffer <= 4 tokens; format! stubbed"
//@ desc: Ok(true) => cursor strictly advanced; Ok(false) => cursor unchanged; always wf and buffer unchanged (contract assumed by the Verus units)
#[kani::proof]
#[kani::unwind(8)]
#[kani::stub(alloc::fmt::format, format_stub)]
fn c01_base_scan_ident_char() {
    let mut p = TP { toks: any_wf_lexer() };
    let before = lexer_buf(&p.toks).clone();
    let c0 = p.toks.cursor();
    let c: char = kani::any();
    let cs: bool = kani::any();
    let r = p.scan_ident_char(c, cs);
    assert!(frame_ok(&p, &before, c0), "C01/K/base_scan_ident_char: frame");
    match r {
        Ok(true) => assert!(p.toks.cursor() > c0, "C01/K/base_scan_ident_char: progress"),
        Ok(false) => assert!(p.toks.cursor() == c0, "C01/K/base_scan_ident_char: restored"),
        Err(_) => {}
    }
    kani::cover!(matches!(r, Ok(true)));
    kani::cover!(matches!(r, Ok(false)));
}

//@ ob: id=C01/K/base_ident_literal kind=K-bounded fns=BaseParser::consume_identifier,BaseParser::expect_identifier bound="buffer <= 4 tokens; literal `ur`; format! stubbed"
//@ desc: consume_identifier/expect_identifier keep wf, never move the cursor backwards, never touch the buffer, and a match (Ok(true) / Ok(())) consumes at least the literal's length
#[kani::proof]
#[kani::unwind(8)]
#[kani::stub(alloc::fmt::format, format_stub)]
#[kani::stub(is_name, any_bool_of_char)]
#[kani::stub(is_name_start, any_bool_of_char)]
fn c01_base_ident_literal() {
    let mut p = TP { toks: any_wf_lexer() };
    let before = lexer_buf(&p.toks).clone();
    let c0 = p.toks.cursor();
    let cs: bool = kani::any();
    // Ok(true) / Ok(()) means every character of the literal was matched by one scan_ident_char,
    // each of which advances: the cursor has moved by at least the literal's length
    let matched = if kani::any() {
        let r = p.consume_identifier("ur", cs);
        matches!(r, Ok(true))
    } else {
        p.expect_identifier("ur", cs).is_ok()
    };
    assert!(frame_ok(&p, &before, c0), "C01/K/base_ident_literal: frame");
    assert!(!matched || p.toks.cursor() >= c0 + 2, "C01/K/base_ident_literal: a match consumes at least the literal's length");
    kani::cover!(matched);
    kani::cover!(p.toks.cursor() == c0 + 2);
}
