//@ target: crates/compiler/src/parse/value.rs
//@ module: verif_kani_c15
//@ props: C15
//! `is_hex_color`: which identifier-like tokens after `#` are colour literals
//! (C15 mech 4: 3/4/6/8-digit hex spellings).

fn spec_is_hex_color(s: &str) -> bool {
    let n = s.len();
    (n == 3 || n == 4 || n == 6 || n == 8) && s.bytes().all(|b| b.is_ascii_hexdigit())
}

fn check(tok: &str) {
    let interp = std::mem::ManuallyDrop::new(Interpolation::new_plain(tok.to_owned()));
    assert!(is_hex_color(&interp) == spec_is_hex_color(tok), "C15/K/is_hex_color");
}

//@ ob: id=C15/K/is_hex_color kind=K-bounded fns=is_hex_color,Interpolation::as_plain bound="8 identifier texts: abc, abcf, abcde, aabbcc, aabbccd, aabbccdd, abcg, ab"
//@ desc: a plain identifier after `#` is a colour literal exactly when it consists of 3, 4, 6 or 8 hex digits
#[kani::proof]
#[kani::unwind(10)]
fn c15_is_hex_color() {
    check("abc");
    check("abcf");
    check("abcde");
    check("aabbcc");
    check("aabbccd");
    check("aabbccdd");
    check("abcg");
    check("ab");
    kani::cover!(true);
}
