//@ target: crates/compiler/src/interner.rs
//@ module: verif_kani_support
//@ props: *
//! Builds `InternedString` values from raw keys so that harnesses never touch the
//! thread-local `lasso` interner (which Kani cannot execute, DESIGN E-K7).
//! Assumption recorded in evidence: the interner is injective (distinct keys
//! denote distinct strings), which is what `Spur` equality means.
use lasso::Key;

pub(crate) fn interned_from_key(k: u8) -> InternedString {
    InternedString(Spur::try_from_usize(k as usize).unwrap())
}
