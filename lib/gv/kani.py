"""Engine K: annotate the real crate in a scratch copy and run `cargo kani`.

Contract files live in contracts/kani/*.rs.  Header directives (`//@ key: value`):
  target:   source file of /repo the text is appended to (as a child module, so it
            sees the file's private items; nothing in the crate is made pub)
  module:   name of the appended `#[cfg(kani)] mod`
  props:    property ids the file serves, or `*` for shared support
  generate: text generated from the current source (table_model)
Each obligation is introduced by
  //@ ob: id=<Cxx/K/name> kind=<K-full|K-contract|K-bounded> fns=<a,b> [bound=<text>] [also=<Cyy,..>]
  //@ desc: free text
followed by the `#[kani::proof]` function that discharges it.
"""
import glob
import os
import re
import time

from . import tablegen
from .common import VERIF, COMPILER_SRC, Undecided, run, log

CONTRACT_DIR = os.path.join(VERIF, "contracts", "kani")

KANI_FLAGS = ["-Z", "function-contracts", "-Z", "stubbing"]


class ContractFile:
    def __init__(self, path):
        self.path = path
        self.name = os.path.basename(path)
        self.text = open(path).read()
        self.target = self.module = None
        self.props = []
        self.generate = None
        self.obligations = []  # dicts
        self._parse()

    def _parse(self):
        lines = self.text.split("\n")
        pending = None
        for i, ln in enumerate(lines):
            m = re.match(r"\s*//@\s*(\w+):\s*(.*)$", ln)
            if m:
                k, v = m.group(1), m.group(2).strip()
                if k == "target":
                    self.target = v
                elif k == "module":
                    self.module = v
                elif k == "props":
                    self.props = v.split()
                elif k == "generate":
                    self.generate = v
                elif k == "ob":
                    pending = {"desc": "", "file": self.name}
                    for kv in re.finditer(r"(\w+)=(\"[^\"]*\"|\S+)", v):
                        pending[kv.group(1)] = kv.group(2).strip('"')
                    for req in ("id", "kind"):
                        if req not in pending:
                            raise Undecided("%s:%d: obligation without %s" % (self.name, i + 1, req))
                elif k == "desc" and pending is not None:
                    pending["desc"] = (pending["desc"] + " " + v).strip()
                continue
            m = re.match(r"\s*(?:pub(?:\([^)]*\))?\s+)?fn\s+(\w+)\s*\(", ln)
            if m and pending is not None:
                pending["harness"] = m.group(1)
                pending["props"] = [pending["id"].split("/")[0]] + [p for p in pending.get("also", "").split(",") if p]
                pending["unwind"] = None
                self.obligations.append(pending)
                pending = None
        if not self.target or not self.module:
            raise Undecided("%s: missing target/module directive" % self.name)
        for ob in self.obligations:
            for pr in ob["props"]:
                if "*" not in self.props and pr not in self.props:
                    raise Undecided("%s: obligation %s serves %s but the file's props line does not list it" % (self.name, ob["id"], pr))
        # unwind / stubs per harness (for evidence)
        for ob in self.obligations:
            m = re.search(r"((?:\s*#\[[^\n]*\]\n)+)\s*(?:pub(?:\([^)]*\))?\s+)?fn\s+%s\s*\(" % re.escape(ob["harness"]), self.text)
            attrs = m.group(1) if m else ""
            u = re.search(r"kani::unwind\((\d+)\)", attrs)
            ob["unwind"] = int(u.group(1)) if u else None
            ob["stubs"] = re.findall(r"kani::stub(?:_verified)?\(([^)]*)\)", attrs)


def load_contracts():
    return [ContractFile(p) for p in sorted(glob.glob(os.path.join(CONTRACT_DIR, "*.rs")))]


def select(contracts, prop):
    """files to inject for a property: its own + shared support"""
    return [c for c in contracts if "*" in c.props or prop in c.props]


def generated_text(kind, scratch):
    if kind == "table_model":
        src = open(os.path.join(scratch, COMPILER_SRC, "unit", "conversion.rs")).read()
        try:
            t1, n1, _ = tablegen.conversion_table(src)
            t2, n2, _ = tablegen.compat_sets(src)
        except tablegen.TableError as e:
            raise Undecided("table extraction: %s" % e)
        return t1 + "\n" + t2, {"table_arms": n1, "compat_members": n2}
    raise Undecided("unknown generator %s" % kind)


def inject(scratch, files, cfg="kani"):
    """Append each contract file as a `#[cfg(any(kani, verif_replay))] mod <module> { use super::*; ... }` to
    its target. Under cfg(kani) the text is compiled by kani-compiler; under cfg(verif_replay) (native replay
    of counterexamples) every `#[kani::..]` attribute is inert (cfg_attr), so stubs are NOT applied and the
    real functions run, and `kani::any/assume/cover!` resolve to the replay shim. Returns info for evidence."""
    info = {"injected": [], "generated": {}}
    by_target = {}
    for c in files:
        by_target.setdefault(c.target, []).append(c)
    for target, cs in by_target.items():
        p = os.path.join(scratch, target)
        if not os.path.exists(p):
            raise Undecided("anchor lost: target file %s does not exist" % target)
        add = ["\n\n// ===== appended by /verif (cfg(kani) / cfg(verif_replay) only; the text above is /repo's) =====\n"]
        for c in cs:
            body = re.sub(r"(?m)^(\s*)//!", r"\1//", c.text)
            if c.generate:
                gen, ginfo = generated_text(c.generate, scratch)
                info["generated"].update(ginfo)
                body = body + "\n" + gen
            # attributes only exist for kani-compiler
            body = re.sub(r"(?m)^(\s*)#\[kani::(.*)\]\s*$", r"\1#[cfg_attr(kani, kani::\2)]", body)
            # harness entry points must be callable from the native replay dispatcher
            for ob in c.obligations:
                body = re.sub(r"(?m)^fn %s\(\)" % re.escape(ob["harness"]), "pub(crate) fn %s()" % ob["harness"], body)
            for ob in c.obligations:
                body += "\n#[cfg(verif_replay)]\n#[no_mangle]\npub extern \"Rust\" fn verif_replay__%s() {\n    %s()\n}\n" % (ob["harness"], ob["harness"])
            add.append(
                "#[cfg(any(kani, verif_replay))]\n#[allow(unused_imports, dead_code, unused_variables, unused_mut, unused_unsafe, static_mut_refs, clippy::all)]\npub(crate) mod %s {\n    use super::*;\n    #[cfg(verif_replay)]\n    use crate::verif_replay_shim as kani;\n%s\n}\n"
                % (c.module, body)
            )
            info["injected"].append({"contract": c.name, "target": target, "module": c.module})
        with open(p, "a") as f:
            f.write("".join(add))
    from . import replay as R

    R.prepare_native(scratch, files)
    return info


def prepare_crate(scratch):
    """cargo kani must not write the lock file and must stay offline."""
    cdir = os.path.join(scratch, ".cargo")
    os.makedirs(cdir, exist_ok=True)
    with open(os.path.join(cdir, "config.toml"), "a") as f:
        f.write("\n[net]\noffline = true\n")


_LAST_CMD = [""]


def last_cmd():
    return _LAST_CMD[0]


def run_kani(scratch, harnesses, logfile, timeout, jobs=16, harness_timeout=900, extra=None):
    cmd = ["cargo", "kani"] + KANI_FLAGS + ["-Z", "unstable-options", "--harness-timeout", "%ds" % harness_timeout]
    cmd += ["-j", str(jobs), "--output-format", "terse"]
    for h in harnesses:
        cmd += ["--exact", "--harness", h] if False else ["--harness", h]
    if extra:
        cmd += extra
    _LAST_CMD[0] = "cargo kani " + " ".join(KANI_FLAGS) + " -Z unstable-options --harness-timeout %ds -j %d --output-format terse --harness <each obligation>" % (harness_timeout, jobs)
    cwd = os.path.join(scratch, "crates", "compiler")
    rc, out, secs, to = run(cmd, cwd=cwd, timeout=timeout, stdout_path=logfile)
    return rc, out, secs, to


def compile_errors(out):
    errs = re.findall(r"^(error(?:\[E\d+\])?: .*(?:\n\s+--> .*)?)", out, re.M)
    if errs:
        return " | ".join(e.replace("\n", " ") for e in errs[:6])
    return out[-600:]


def parse_output(out):
    """Parse `--output-format terse -j N` output: per-thread blocks.
    -> dict short_harness_name -> {status, failed[], cover, time, checks, timeout, raw}"""
    cur = {}  # thread -> harness full name
    blocks = {}  # harness -> list of lines
    active = None
    for ln in out.split("\n"):
        m = re.match(r"^Thread (\d+): Checking harness (\S+?)\.\.\.\s*$", ln)
        if m:
            cur[m.group(1)] = m.group(2)
            blocks.setdefault(m.group(2), [])
            active = None
            continue
        m = re.match(r"^Thread (\d+): ?(.*)$", ln)
        if m:
            active = cur.get(m.group(1))
            if active is not None and m.group(2):
                blocks[active].append(m.group(2))
            continue
        if re.match(r"^(Manual Harness Summary|Complete - |Verification failed for - )", ln):
            active = None
            continue
        # single-job runs have no Thread prefix
        m = re.match(r"^Checking harness (\S+?)\.\.\.\s*$", ln)
        if m:
            active = m.group(1)
            blocks.setdefault(active, [])
            continue
        if active is not None:
            blocks[active].append(ln)
    res = {}
    for name, lines in blocks.items():
        body = "\n".join(lines)
        short = name.split("::")[-1]
        st = None
        m = re.search(r"^VERIFICATION:- (SUCCESSFUL|FAILED)", body, re.M)
        if m:
            st = m.group(1)
        failed = []
        for fm in re.finditer(r"Failed Checks: (.*)\n\s*File: \"([^\"]*)\", line (\d+), in (\S+)", body):
            failed.append({"description": fm.group(1).strip(), "file": fm.group(2), "line": int(fm.group(3)), "function": fm.group(4)})
        covers = re.search(r"\*\* (\d+) of (\d+) cover properties satisfied", body)
        cov = [int(covers.group(1)), int(covers.group(2))] if covers else None
        tm = re.search(r"Verification Time: ([0-9.]+)s", body)
        nchecks = re.search(r"\*\* (\d+) of (\d+) failed", body)
        res[short] = {
            "full_name": name,
            "status": st,
            "failed": failed,
            "cover": cov,
            "time": float(tm.group(1)) if tm else None,
            "checks": int(nchecks.group(2)) if nchecks else None,
            "nfailed": int(nchecks.group(1)) if nchecks else None,
            "timeout": "CBMC timed out" in body,
            "oom": bool(re.search(r"out of memory|std::bad_alloc|status 137|SIGKILL", body)),
            "raw": body[-4000:],
        }
    return res


UNWIND_PAT = re.compile(r"unwinding assertion|recursion unwinding", re.I)
# Kani's default `--nan-check` flags every float operation that can produce NaN. Sass
# arithmetic is IEEE arithmetic (inf - inf = NaN is specified behaviour), so these are
# not part of any obligation; all other checks of the harness are still decided.
NOISE_PAT = re.compile(r"^NaN on (addition|subtraction|multiplication|division)", re.I)
UNSUPPORTED_PAT = re.compile(r"is not currently supported by Kani|unsupported construct|Unsupported", re.I)


def classify(ob, pr):
    """Map a Kani harness result to discharged / failed (definite negative verdict) / undecided."""
    base = {
        "engine": "kani/cbmc+cadical",
        "kind": ob["kind"],
        "bound": ob.get("bound"),
        "fns": ob.get("fns"),
        "desc": ob.get("desc"),
        "harness": ob["harness"],
        "stubs": ob.get("stubs"),
    }
    if pr is None:
        base.update(status="undecided", note="harness produced no result (compile error or not found)")
        return base
    base.update(time=pr["time"], checks=pr["checks"], cover=pr["cover"])
    if pr["status"] == "SUCCESSFUL":
        if pr["cover"] and pr["cover"][0] < pr["cover"][1]:
            base.update(status="undecided", nontrivial=False, note="vacuity guard: %d of %d cover properties satisfiable" % tuple(pr["cover"]))
        else:
            base.update(status="discharged", nontrivial=True)
        return base
    if pr["timeout"] or pr["oom"]:
        base.update(status="undecided", note="CBMC timeout/out of memory")
        return base
    real = [f for f in pr["failed"] if not UNWIND_PAT.search(f["description"]) and not UNSUPPORTED_PAT.search(f["description"]) and not NOISE_PAT.search(f["description"])]
    noise = [f for f in pr["failed"] if NOISE_PAT.search(f["description"])]
    if pr["failed"] and len(noise) == len(pr["failed"]) and pr["nfailed"] == len(noise):
        if pr["cover"] and pr["cover"][0] < pr["cover"][1]:
            base.update(status="undecided", nontrivial=False, note="vacuity guard: %d of %d cover properties satisfiable" % tuple(pr["cover"]))
        else:
            base.update(status="discharged", nontrivial=True, note="(%d NaN-producing float operations flagged by Kani's default nan-check ignored)" % len(noise))
        return base
    if real:
        base.update(
            status="failed",
            failed_checks=real,
            sites=sorted(set(site_of(f) for f in real)),
            note="; ".join(sorted(set(f["description"] for f in real)))[:300],
            verifier_output=pr["raw"],
        )
        return base
    if pr["failed"]:
        base.update(status="undecided", note="only unwinding/unsupported-construct checks failed: " + pr["failed"][0]["description"][:120])
        return base
    base.update(status="undecided", note="CBMC failed without a property verdict", verifier_output=pr["raw"])
    return base


def site_of(f):
    """failing site = assertion message when it names an obligation/call-site, else function name (never a line number)"""
    d = f["description"]
    m = re.search(r"\"?((?:C\d\d|[\w:]+\.requires)[^\"]*)", d)
    if m and ("/" in m.group(1) or ".requires" in m.group(1)):
        return m.group(1).strip().strip('"')
    return "%s in %s" % (d[:80], f["function"].split("::")[-1])


def assumptions_for(kobs, kmeta):
    a = set()
    a.add("Kani: harness modules are appended to the real source files of a scratch copy of /repo as #[cfg(kani)] child modules; the function text under contract is /repo's, unchanged")
    for o in kobs:
        for s in o.get("stubs") or []:
            a.add("kani::stub(%s) in %s" % (" -> ".join(x.strip() for x in s.split(",")), o["harness"]))
        if o["kind"] == "native-check":
            continue
        if o["kind"] == "K-bounded":
            a.add("bounded: %s (%s)" % (o["id"], o.get("bound", "see unwind")))
    gen = (kmeta.get("injected") or {}).get("generated") or {}
    if gen:
        a.add("unit table model: UNIT_CONVERSION_TABLE / KNOWN_COMPATIBILITIES rewritten mechanically into `match` (HashMap, HashSet, Lazy dropped; %d factor arms, %d set members); the model is compared natively, bit for bit, with the real Lazy<HashMap> on every run that uses it (obligation C08/N/table_model_matches_real_table)" % (gen.get("table_arms", 0), gen.get("compat_members", 0)))
        a.add("interner: Unknown units built from raw lasso keys; distinct keys = distinct strings (injective interner)")
    return sorted(a)
