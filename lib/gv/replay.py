"""Replay of verifier counterexamples against the real code.

Kani: the failing harness is re-run alone with `--concrete-playback=print`; the byte
vectors of its `kani::any()` calls are then fed to the *same harness compiled
natively* in the scratch copy (`--cfg verif_replay`): the contract modules are
compiled under `cfg(any(kani, verif_replay))`, `kani::any/assume/cover!` resolve to
a shim that pops the recorded bytes, and - because `kani::stub` attributes only
exist under cfg(kani) - every stubbed function runs its REAL body (the real
`Number::convert` with the real HashMap table, the real `epsilon()`...). A native
panic / failed assertion is the replayed violation. When the harness draws values
inside a stub (nondeterministic contracts) the recorded sequence cannot be
aligned: the replay then reports `desync` and the violation line ends with
`no-failing-input-found`.

Verus gives no model: the replay file carries the failed obligation and the
verifier's message only.
"""
import json
import os
import re
import time

from .common import VERIF, run, write_json, log

REPLAY_DIR = os.path.join(VERIF, "replay", "out")

SHIM = r'''
// ===== appended by /verif for native replay (cfg(verif_replay) only) =====
#[cfg(verif_replay)]
#[allow(dead_code, unused_macros, unused_imports)]
pub(crate) mod verif_replay_shim {
    use std::cell::RefCell;
    use std::collections::VecDeque;
    thread_local! {
        pub static QUEUE: RefCell<VecDeque<Vec<u8>>> = RefCell::new(VecDeque::new());
        pub static LOG: RefCell<Vec<String>> = RefCell::new(Vec::new());
    }
    pub struct AssumptionViolated;
    pub struct Desync(pub &'static str);
    fn pop(n: usize, what: &'static str) -> [u8; 16] {
        let v = QUEUE.with(|q| q.borrow_mut().pop_front());
        match v {
            Some(v) if v.len() == n => {
                let mut b = [0u8; 16];
                b[..n].copy_from_slice(&v);
                b
            }
            Some(_) => std::panic::panic_any(Desync(what)),
            None => std::panic::panic_any(Desync("recorded values exhausted")),
        }
    }
    pub trait ReplayAny: Sized {
        fn replay() -> Self;
    }
    macro_rules! int_any {
        ($($t:ty),*) => {$(
            impl ReplayAny for $t {
                fn replay() -> Self {
                    const N: usize = std::mem::size_of::<$t>();
                    let b = pop(N, stringify!($t));
                    let mut a = [0u8; N];
                    a.copy_from_slice(&b[..N]);
                    let v = <$t>::from_le_bytes(a);
                    LOG.with(|l| l.borrow_mut().push(format!("any::<{}>() = {:?}", stringify!($t), v)));
                    v
                }
            }
        )*};
    }
    int_any!(u8, u16, u32, u64, u128, usize, i8, i16, i32, i64, i128, isize, f32, f64);
    impl ReplayAny for bool {
        fn replay() -> Self {
            let b = pop(1, "bool");
            let v = b[0] != 0;
            LOG.with(|l| l.borrow_mut().push(format!("any::<bool>() = {}", v)));
            v
        }
    }
    impl ReplayAny for char {
        fn replay() -> Self {
            let b = pop(4, "char");
            let u = u32::from_le_bytes([b[0], b[1], b[2], b[3]]);
            match char::from_u32(u) {
                Some(c) => {
                    LOG.with(|l| l.borrow_mut().push(format!("any::<char>() = {:?}", c)));
                    c
                }
                None => std::panic::panic_any(AssumptionViolated),
            }
        }
    }
    pub fn any<T: ReplayAny>() -> T {
        T::replay()
    }
    pub fn assume(c: bool) {
        if !c {
            std::panic::panic_any(AssumptionViolated);
        }
    }
    macro_rules! __verif_cover {
        ($($t:tt)*) => {};
    }
    pub(crate) use __verif_cover as cover;
}

#[cfg(verif_replay)]
#[doc(hidden)]
pub fn verif_replay_run(name: &str, vals: Vec<Vec<u8>>) -> i32 {
    use verif_replay_shim::*;
    QUEUE.with(|q| *q.borrow_mut() = vals.into_iter().collect());
    std::panic::set_hook(Box::new(|info| {
        let msg = if let Some(s) = info.payload().downcast_ref::<&str>() {
            s.to_string()
        } else if let Some(s) = info.payload().downcast_ref::<String>() {
            s.clone()
        } else {
            String::new()
        };
        if !msg.is_empty() {
            eprintln!("REPLAY-PANIC-MESSAGE: {} @ {}", msg.replace('\n', " "), info.location().map(|l| format!("{}:{}", l.file(), l.line())).unwrap_or_default());
        }
    }));
    let name_owned = name.to_owned();
    let r = std::panic::catch_unwind(move || verif_replay_dispatch(&name_owned));
    LOG.with(|l| {
        for line in l.borrow().iter() {
            println!("REPLAY-INPUT: {}", line);
        }
    });
    let left = QUEUE.with(|q| q.borrow().len());
    match r {
        Ok(true) => {
            println!("REPLAY-RESULT: completed without failure (unconsumed values: {})", left);
            0
        }
        Ok(false) => {
            println!("REPLAY-RESULT: unknown harness");
            3
        }
        Err(e) => {
            if e.downcast_ref::<AssumptionViolated>().is_some() {
                println!("REPLAY-RESULT: assumption violated natively (counterexample does not satisfy the harness precondition)");
                4
            } else if let Some(d) = e.downcast_ref::<Desync>() {
                println!("REPLAY-RESULT: desync ({})", d.0);
                5
            } else {
                println!("REPLAY-RESULT: FAILED natively (panic / assertion in the real code or the contract)");
                1
            }
        }
    }
}
'''

EXAMPLE = r'''
// generated by /verif: native replay driver
fn main() {
    let mut args = std::env::args().skip(1);
    let name = args.next().expect("harness name");
    let spec = args.next().unwrap_or_default();
    let mut vals: Vec<Vec<u8>> = Vec::new();
    for part in spec.split(';') {
        if part.is_empty() {
            continue;
        }
        vals.push(part.split(',').filter(|x| !x.is_empty()).map(|x| x.parse::<u8>().unwrap()).collect());
    }
    std::process::exit(grass_compiler::verif_replay_run(&name, vals));
}
'''


def module_path_of(target):
    """crates/compiler/src/a/b.rs -> crate::a::b ; a/mod.rs -> crate::a ; lib.rs -> crate"""
    rel = target.split("/src/", 1)[1]
    rel = rel[:-3]
    parts = rel.split("/")
    if parts[-1] in ("mod", "lib"):
        parts = parts[:-1]
    return "crate" + "".join("::" + p for p in parts)


def prepare_native(scratch, files):
    """Append shim + dispatcher to lib.rs and write the example runner. `files`: injected ContractFile list."""
    lib = os.path.join(scratch, "crates", "compiler", "src", "lib.rs")
    # harness modules live in private modules of the crate; they export one unmangled
    # trampoline per harness (see kani.inject) which the dispatcher reaches by symbol
    arms = []
    decls = []
    for c in files:
        for ob in c.obligations:
            decls.append("    fn verif_replay__%s();" % ob["harness"])
            arms.append('        "%s" => { unsafe { verif_replay__%s() }; true }' % (ob["harness"], ob["harness"]))
    disp = "\n#[cfg(verif_replay)]\nextern \"Rust\" {\n%s\n}\n#[cfg(verif_replay)]\nfn verif_replay_dispatch(name: &str) -> bool {\n    match name {\n%s\n        _ => false,\n    }\n}\n" % ("\n".join(decls), ",\n".join(arms))
    with open(lib, "a") as f:
        f.write(SHIM)
        f.write(disp)
    exd = os.path.join(scratch, "crates", "compiler", "examples")
    os.makedirs(exd, exist_ok=True)
    with open(os.path.join(exd, "verif_replay.rs"), "w") as f:
        f.write(EXAMPLE)


def build_native(scratch):
    env = {"RUSTFLAGS": "--cfg verif_replay -C debug-assertions=off -A warnings", "CARGO_TARGET_DIR": os.path.join(scratch, "target-native")}
    rc, out, secs, to = run(["cargo", "build", "--offline", "-p", "grass_compiler", "--example", "verif_replay"], cwd=scratch, env=env, timeout=900)
    exe = os.path.join(scratch, "target-native", "debug", "examples", "verif_replay")
    if rc != 0 or not os.path.exists(exe):
        return None, out[-1500:]
    return exe, ""


def parse_playback(out):
    """Kani prints one generated test per failed check AND per satisfied cover; return the byte vectors of each, in order."""
    tests = []
    for m in re.finditer(r"let concrete_vals: Vec<Vec<u8>> = vec!\[(.*?)\n\s*\];", out, re.S):
        vals = []
        for vm in re.finditer(r"vec!\[([0-9,\s]*)\]", m.group(1)):
            nums = [x.strip() for x in vm.group(1).split(",") if x.strip()]
            vals.append([int(x) for x in nums])
        if vals not in tests:
            tests.append(vals)
    return tests


def kani_counterexample(scratch, ob, res, hto, native_exe_cb):
    """Re-run the failed harness for concrete counterexamples and replay them natively until one fails."""
    from . import kani as K

    info = {"reproduced": False}
    cmd = ["cargo", "kani"] + K.KANI_FLAGS + ["-Z", "concrete-playback", "--concrete-playback=print", "-Z", "unstable-options", "--no-default-checks", "--harness-timeout", "%ds" % hto, "--harness", ob["harness"]]
    rc, out, secs, to = run(cmd, cwd=os.path.join(scratch, "crates", "compiler"), timeout=hto + 600)
    tests = parse_playback(out)
    if not tests:
        # harnesses without symbolic input (concrete loops): run the harness natively as it is
        tests = [[]]
        info["note"] = "harness has no symbolic input: replay = native execution of the harness"
    exe, err = native_exe_cb()
    if exe is None:
        info["why"] = "native replay build failed: " + err[-400:]
        return info
    attempts = []
    for vals in tests[:12]:
        spec = ";".join(",".join(str(b) for b in v) for v in vals)
        rc, rout, secs, to = run([exe, ob["harness"], spec], cwd=scratch, timeout=120)
        rm = re.search(r"REPLAY-RESULT: (.*)", rout)
        a = {
            "counterexample_bytes": vals,
            "inputs": re.findall(r"REPLAY-INPUT: (.*)", rout),
            "native_panic": re.findall(r"REPLAY-PANIC-MESSAGE: (.*)", rout),
            "native_result": rm.group(1) if rm else ("native run did not return within 120 s" if to else "no result (rc=%s): %s" % (rc, rout[-300:])),
        }
        failed = bool(rm and "FAILED natively" in rm.group(1)) or to
        attempts.append(a)
        if failed:
            info.update(a)
            info["reproduced"] = True
            break
    if not info["reproduced"]:
        info["native_result"] = "; ".join(sorted(set(a["native_result"] for a in attempts)))
        info["attempts"] = attempts
    return info


DEFAULT_ALPHABET = ["a", " ", "\n", ":", ";", "{", "}", "(", ")", "/", "*", "#", ",", "\"", "\\", "$", "@", "-", "1"]
PREFIXES = ["", "a{b:", "$a: 1 ", "a\n  b: c ", "a\n  ", "@media ", "a{", "@charset \"a\"", "@import \"a.css\"", "@-moz-document ", "@import "]


def witness_search(scratch, fn_source_file, fn_text, budget_s=240):
    """Verus gives no model. For a failed termination / panic-freedom obligation of a parser function, look for a
    concrete witness through the public entry point: short inputs (a few context prefixes followed by every string
    of length <= 3 over the characters that occur as literals in the function) are compiled by the natively built
    CLI of the scratch copy, each in its own process with a 3 s watchdog. A hang or a panic is a replayed witness.
    This search only documents a violation the verifier has already reported; it never decides anything."""
    import itertools
    import subprocess
    from concurrent.futures import ThreadPoolExecutor

    env = {"CARGO_TARGET_DIR": os.path.join(scratch, "target-native-cli")}
    rc, out, secs, to = run(["cargo", "build", "--offline", "-p", "grass"], cwd=scratch, env=env, timeout=900)
    exe = os.path.join(scratch, "target-native-cli", "debug", "grass")
    if rc != 0 or not os.path.exists(exe):
        return {"reproduced": False, "why": "native CLI build failed: " + out[-300:]}
    lits = re.findall(r"'(\\.|[^'\\])'", fn_text)
    alpha = []
    for c in lits + DEFAULT_ALPHABET:
        c = {"\\n": "\n", "\\t": "\t", "\\\\": "\\", "\\'": "'", "\\r": "\r"}.get(c, c)
        if len(c) == 1 and c not in alpha:
            alpha.append(c)
    alpha = alpha[:16]
    if fn_source_file.endswith("sass.rs"):
        exts = ["sass"]
    elif fn_source_file.endswith("css.rs"):
        exts = ["css"]
    else:
        exts = ["scss", "sass", "css"]
    wd = os.path.join(scratch, "witness")
    os.makedirs(wd, exist_ok=True)
    t0 = time.time()
    found = []

    import threading
    confirm_lock = threading.Lock()

    def try_one(args):
        i, ext, text = args
        if found or time.time() - t0 > budget_s:
            return None
        path = os.path.join(wd, "w%d.%s" % (i % 64, ext))
        path = os.path.join(wd, "w%d_%d.%s" % (os.getpid(), i, ext))
        with open(path, "w") as f:
            f.write(text)
        try:
            p = subprocess.run([exe, path], capture_output=True, text=True, timeout=3)
            os.unlink(path)
            if p.returncode == 101 or "panicked at" in p.stderr:
                m = re.search(r"panicked at ([^\n]*)\n([^\n]*)", p.stderr)
                return (ext, text, "panic: " + (m.group(1) + " " + m.group(2) if m else p.stderr[:200]))
            if p.returncode < 0:
                return (ext, text, "killed by signal %d" % -p.returncode)
        except subprocess.TimeoutExpired:
            # a 3 s watchdog under 16-way load proves nothing: confirm alone with a long watchdog
            try:
                with confirm_lock:
                    p = subprocess.run([exe, path], capture_output=True, text=True, timeout=30)
                os.unlink(path)
                if p.returncode == 101 or "panicked at" in p.stderr:
                    m = re.search(r"panicked at ([^\n]*)\n([^\n]*)", p.stderr)
                    return (ext, text, "panic: " + (m.group(1) + " " + m.group(2) if m else p.stderr[:200]))
                return None
            except subprocess.TimeoutExpired:
                os.unlink(path)
                return (ext, text, "did not return within 30 s when run alone (hang)")
        return None

    def gen():
        i = 0
        for n in (1, 2, 3):
            for tup in itertools.product(alpha, repeat=n):
                body = "".join(tup)
                for pre in PREFIXES:
                    for ext in exts:
                        i += 1
                        yield (i, ext, pre + body)

    tried = 0
    with ThreadPoolExecutor(max_workers=16) as ex:
        batch = []
        for item in gen():
            batch.append(item)
            if len(batch) == 256:
                for r in ex.map(try_one, batch):
                    tried += 1
                    if r:
                        found.append(r)
                batch = []
                if found or time.time() - t0 > budget_s:
                    break
        if batch and not found:
            for r in ex.map(try_one, batch):
                tried += 1
                if r:
                    found.append(r)
    if found:
        ext, text, what = found[0]
        return {"reproduced": True, "witness_input": text, "witness_syntax": ext, "native_result": what, "inputs": ["%s input %r" % (ext, text)], "inputs_tried": tried, "alphabet": alpha}
    return {"reproduced": False, "why": "no hang or panic among %d short inputs (alphabet %r, %d s)" % (tried, alpha, int(time.time() - t0)), "inputs_tried": tried}


def native_check(scratch, ob, native_exe_cb):
    base = {"engine": "native (rustc, --cfg verif_replay)", "kind": "native-check", "fns": ob.get("fns"), "desc": ob.get("desc"), "harness": ob["harness"], "nontrivial": True}
    exe, err = native_exe_cb()
    if exe is None:
        base.update(status="undecided", note="native build failed: " + err[-300:])
        return base
    t0 = time.time()
    rc, rout, secs, to = run([exe, ob["harness"], ""], cwd=scratch, timeout=300)
    base["time"] = round(time.time() - t0, 2)
    rm = re.search(r"REPLAY-RESULT: (.*)", rout)
    if rm and rm.group(1).startswith("completed without failure"):
        base.update(status="discharged")
    else:
        msg = "; ".join(re.findall(r"REPLAY-PANIC-MESSAGE: (.*)", rout)) or (rm.group(1) if rm else rout[-200:])
        base.update(status="undecided", note="model validation failed (extraction no longer faithful): " + msg[:300])
    return base


def write_replay_file(prop, ob_id, r):
    os.makedirs(REPLAY_DIR, exist_ok=True)
    path = os.path.join(REPLAY_DIR, "%s__%s.json" % (prop, re.sub(r"[^A-Za-z0-9_.-]+", "_", ob_id)))
    write_json(
        path,
        {
            "property": prop,
            "failed_obligation": ob_id,
            "engine": r.get("engine"),
            "kind": r.get("kind"),
            "harness": r.get("harness"),
            "functions": r.get("fns"),
            "what_the_obligation_states": r.get("desc"),
            "failed_checks": r.get("failed_checks"),
            "sites": r.get("sites"),
            "replay": r.get("replay"),
            "verifier_output": r.get("verifier_output"),
            "how_to_rerun": "bin/check %s   (re-verifies the obligation on /repo's current tree; the native replay above was produced by feeding the recorded kani::any() values to the same harness compiled with --cfg verif_replay)" % prop,
            "written": time.strftime("%Y-%m-%dT%H:%M:%S"),
        },
    )
    return path


def replay_file(path):
    d = json.load(open(path))
    print("failed obligation:", d.get("failed_obligation"))
    print("states:", d.get("what_the_obligation_states"))
    rp = d.get("replay") or {}
    for line in rp.get("inputs", []) or []:
        print("  input:", line)
    for line in rp.get("native_panic", []) or []:
        print("  native panic:", line)
    print("native result:", rp.get("native_result"))
    print("--- verifier output ---")
    print((d.get("verifier_output") or "")[:4000])
    return 0
