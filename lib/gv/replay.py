"""Replay of verifier counterexamples against the real code (filled in below)."""
import json
import os
import re
import time

from .common import VERIF, write_json

REPLAY_DIR = os.path.join(VERIF, "replay", "out")


def kani_counterexample(scratch, ob, res, hto):
    return {"reproduced": False, "why": "native replay not implemented yet"}


def write_replay_file(prop, ob_id, r):
    os.makedirs(REPLAY_DIR, exist_ok=True)
    path = os.path.join(REPLAY_DIR, "%s__%s.json" % (prop, re.sub(r"[^A-Za-z0-9_.-]+", "_", ob_id)))
    write_json(
        path,
        {
            "property": prop,
            "failed_obligation": ob_id,
            "engine": r.get("engine"),
            "kind": r.get("kind"),
            "functions": r.get("fns"),
            "what_the_obligation_states": r.get("desc"),
            "failed_checks": r.get("failed_checks"),
            "sites": r.get("sites"),
            "replay": r.get("replay"),
            "verifier_output": r.get("verifier_output"),
            "written": time.strftime("%Y-%m-%dT%H:%M:%S"),
        },
    )
    return path


def replay_file(path):
    d = json.load(open(path))
    print(json.dumps(d, indent=1)[:6000])
    return 0
