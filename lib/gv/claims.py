"""What MANIFEST.json claims, per property.  Imported by manifest_gen."""
from .manifest_gen import claim, NA

K_TRUST = "Trusted: kani-compiler 0.68 / CBMC 6.11 / CaDiCaL and rustc; harness modules are appended to the real source files in a scratch copy under cfg(kani) (function text under contract is /repo's, unchanged); every kani::stub is listed in the evidence; callers between the functions under contract and the public API (Visitor, parsers, serializer) are NOT verified."
V_TRUST = "Trusted: Verus 0.2026.09.13 / Z3; the prelude's external_body contracts for Lexer and the std/char helpers (each discharged separately by a Kani obligation listed in the evidence); rewrite rules R1-R7 of DESIGN 3.2 (syntactic, counted per run); Vec<Token> length bound (allocation limit)."

claim(
    "C01",
    "other",
    "Partial (mechanisms 1, 3 and 4, and the unwrap/unreachable sites of mechanism 2 that lie inside the functions listed). Unbounded proof (Verus, requires/ensures/invariant/decreases on the function text extracted by span on every run "
    "from parse/base.rs, sass.rs, stylesheet.rs, media_query.rs, keyframes.rs, at_root_query.rs, value.rs, lexer.rs, error.rs, lib.rs, common.rs, ast/expr.rs, ast/stmt.rs, parse/css.rs, selector/parse.rs and selector/attribute.rs: 22 units, 173 functions) that the scanner layer of all "
    "three syntaxes - BaseParser's 20 scanning methods incl. declaration_value, the indented syntax's overrides, indentation look-ahead and comment parsers, the "
    "stylesheet parser's interpolation/comment/url/string/almost-any-value/declaration-value scanners, the media-query, keyframes-selector and @at-root query parsers, "
    "the number-literal scanners - and, above it, the @media/@supports/@import grammars, argument declarations and invocations, member lists and `with (..)` configurations, the statement-level block loops "
    "(parse_children, parse_statements, @if/@else chains, @each/@while heads, variable declarations; indented syntax: parse_statements, parse_child, while_indented_lower, scan_else), the calculation grammar, "
    "parenthesised lists and maps, the selector grammar (selector/parse.rs, attribute.rs), the statement and at-rule dispatchers with the style-rule and at-rule parsers they reach - terminates on every token buffer, keeps the cursor inside the buffer, never modifies the buffer, satisfies the progress clauses its "
    "callers' measures need, has no integer overflow/underflow, and never reaches an unwrap()/unreachable!()/todo!()/raw_text/hex_char_for/char::from_u32().unwrap() "
    "precondition failure; the error conversion chain (SassError::raw/kind, raw_to_parse_error: mechanism 4) keeps its two unreachable!()s unreachable for every error value; the real Lexer "
    "functions meet, for buffers of any length, the interface contracts the parser units assume; relative to assumed, undischarged contracts: the expression parser entry points do not move the cursor backwards or touch the buffer; the statement callback passed to the block loops does neither and has "
    "consumed input when it returns Ok (the block loops' termination rests on it) - proved for parse_statement itself (unit stylesheet_rules) relative to parse_declaration_or_buffer and five rule parsers that stay assumed, "
    "still assumed for function_child and the top-level @charset closure; termination of the two callback loops of the indented syntax is not proved at all; two selector-parser leaves (eat_whitespace, parse_a_n_plus_b) are assumed; str::parse::<f64>() does not fail on scanned number text. The Lexer interface and the leaf methods Verus "
    "cannot take (expect_char, scan, scan_ident_char, consume/expect_identifier) are discharged by Kani on the real code (bounded: buffer <= 4 tokens, "
    "loop-free functions); the char helpers and std specifications over all char/u32 (complete). Number::convert's precondition (table entry exists) "
    "is discharged at its call sites in sass_number.rs (all 37x37 simple unit pairs), Value::cmp and clamp() (unit representatives). Level 'other' "
    "because some obligations are bounded stand-ins; they are listed as such in the evidence and not counted as proved. NOT covered: the recursive-descent "
    "statement dispatcher and declaration/style-rule parsers (stylesheet.rs parse_statement, parse_declaration_or_buffer, ..), the expression parser proper (value.rs parse_value, parse_single_expression), selector parser, evaluation, serialization, the unwrap/unreachable sites outside the functions listed, min()/max(), bin_op.rs, non-UTF-8 input, imports.",
    K_TRUST + " " + V_TRUST,
    "Verus loop/termination contracts on extracted functions + Kani call-site contracts",
    "DESIGN.md 5/C01",
)
claim(
    "C07",
    "other",
    "Partial (mechanisms 1-2 of 4; printing and literal parsing are not reachable). On the real value/number.rs over ALL doubles: fuzzy_as_int agrees with the "
    "1e-11 tolerance and never mis-casts below 2^63; is_zero/is_one/is_positive/is_negative/min/max/clamp contracts; `%` is NaN exactly for a zero divisor and otherwise "
    "has the divisor's sign and bounded magnitude (relative to an assumed contract of f64::rem_euclid); Value::cmp (the implementation of < <= > >=) "
    "answers Equal exactly for numbers equal within tolerance (left operand all doubles, right operand 5 concrete magnitudes). Thorough tier additionally "
    "discharges the two-operand laws of fuzzy_equals / fuzzy_less_than (definition, symmetry, reflexivity, trichotomy; 10-100 min each in CBMC, with f64::round "
    "as an uninterpreted function). Level 'other': K-full and K-contract obligations, one with a stated operand bound.",
    K_TRUST + " epsilon()/inverse_epsilon() replaced by 1e-11/1e11 (checked natively bit-for-bit on every run); machine floats are CBMC's IEEE-754 model.",
    "Kani loop-free harnesses over the full f64 domain",
    "DESIGN.md 5/C07",
)
claim(
    "C08",
    "other",
    "Partial (mechanisms 1-3 of 5 and two building blocks of 4). Level 'other' because the two unit-algebra obligations (Unit::new normal form, are_any_convertible) are bounded stand-ins on concrete unit vectors; "
    "everything else is complete - proved for all inputs of the functions under contract: (1) the conversion table, rewritten mechanically on every run from the "
    "current initializer into a match and validated natively bit-for-bit against the real Lazy<HashMap>, has an entry exactly for pairs in the same convertible "
    "class of the statement, is 1 on the diagonal, equals the CSS ratios of the statement within 4 ulp, and is inverse-consistent and transitive within 4 ulp; "
    "(2) the real Unit::comparable/kind agree with the statement's classes on all 37x37 simple units (34 known, None, Unknown with symbolic key) and 4 complex units, "
    "are an equivalence on non-None units, and comparable() implies a table entry; (3) SassNumber +,-,== : never reach a missing table entry, take the left operand's unit "
    "(the right one's when the left is unitless), compute l op r*factor, unitless equals only unitless, and the statement's ratios hold through == (1in == 96px == ...). "
    "NOT covered: bin_op.rs add/sub/rem (CBMC does not finish on `Value`), multiply_units unit algebra, serializer rejection of complex units.",
    K_TRUST + " Interner injectivity for Unknown units; concrete magnitudes at call sites (symbolic units).",
    "Kani function-level contracts (loop-free / concretely unrolled harnesses over the whole unit domain)",
    "DESIGN.md 5/C08",
)
claim(
    "C09",
    "other",
    "Partial (mechanisms 1, 2 and 5 of 5 on stack values; map operations are not reachable). On the real Value::eq / Value::not_equals: for numbers over all 37x37 simple unit "
    "pairs `!=` is exactly the negation of `==`, a quantity equals itself expressed in any convertible unit in both argument orders, and == is reflexive; on a universe of 13 "
    "stack values (null, booleans, numbers, quoted/unquoted strings, empty comma/space/bracketed lists, an argument list, an empty map) == is symmetric and reflexive and != its "
    "negation; colors: byte and rgba() spellings compare equal in both orders; SassMap get_ref/contains on a concrete four-entry map find an entry exactly when a key is == to the probe "
    "(unit conversion, quote-insensitive strings) and return the first such entry, iteration is in insertion order. The three list-vs-argument-list pairs (4-9 min each) are in the thorough tier only, "
    "so that the quick tier stays under ten minutes; the small-value rows of the quick tier still compare the argument list with every other value kind. Bounded stand-ins (value universe, one map), not counted as proved. NOT covered: non-empty lists, "
    "SassMap ==/insert/remove/merge/get/keys/values (dropping a Value is beyond Kani here; map == does not finish), transitivity, duplicate-key check, index().",
    K_TRUST + " Values are never dropped in harnesses (ManuallyDrop).",
    "Kani contracts on Value::eq/not_equals over symbolic units and a bounded value universe",
    "DESIGN.md 5/C09",
)
claim(
    "C15",
    "other",
    "Partial (mechanism 1, the equality part, and the hex-literal scanner of mechanism 4). Level 'other' because one obligation (is_hex_color, 8 concrete identifiers) is a bounded stand-in; the rest are complete: "
    "proved on the real color/mod.rs for ALL doubles (NaN and infinities included) / all bytes: both clamping constructors yield "
    "integer-rounded red/green/blue in [0,255] and alpha in [0,1]; named-color construction; change-alpha/opacify/transparentize clamp and leave rgb untouched; whiteness/blackness in [0,1] "
    "with sum <= 1; invert with weight 0 is the identity; a color written as bytes equals the same color built by rgba() in both orders, differing channels/alpha are unequal. "
    "Verus (unbounded): the hex-literal scanner parse_hex_color_contents consumes exactly 3, 4, 6 or 8 hex digits, never overflows, never underflows `start - 1`, and every channel it hands to the constructor is a byte "
    "(relative to the assumed contract of parse_hex_digit). "
    "NOT covered (CBMC cannot finish symbolic multiply/fma chains): rgb<->hsl/hwb round trips, lighten/darken/saturate/adjust-hue/complement, mix, is_hex_color/parse_hash, the named table, compressed spelling.",
    K_TRUST,
    "Kani loop-free harnesses over the full f64 / u8 domain + Verus contract on the hex-literal scanner",
    "DESIGN.md 5/C15",
)
claim(
    "C16",
    "other",
    "Partial (mechanisms 1-3 of 4; min()/max() not). parenthesize_calculation_rhs: for all 16 operator pairs, dropping the parentheses the printer omits preserves the value "
    "(complete over the operator domain). operate_internal on concrete operand pairs: convertible operands fold to the number ordinary arithmetic gives, an unsimplifiable a+b / a-b keeps the left operand "
    "and its sign-normalised `op' n'` equals `op n` with n' >= 0. clamp(): over unit triples from the class representatives {none,px,in,em,deg}: never violates Number::convert's precondition, reduces only for mutually "
    "convertible units, result is one of the arguments and (for min <= max) lies in the range, otherwise the arguments are kept in order. One known finding is reported (inverted range, dart-sass parity). "
    "The printer (Verus, unit serializer_calc, unbounded depth): Serializer::write_calculation_arg appends, for every argument tree over + - * /, a text with the leaves verbatim, operators infix, parentheses at least where "
    "the value would otherwise change and spaces around + and - (relational spec ok_onto; superfluous parentheses/optional spaces allowed), and the real rule/precedences equal the semantic predicates. "
    "NOT covered: min()/max() (recursive drop glue of heap-stored CalculationArg: CBMC does not finish), the text of the leaves (numbers, nested calculations), evaluation of calc arguments in the Visitor; the calculation grammar's parser is covered for termination and panics only (C01, unit value_calc).",
    K_TRUST + " verify_compatible_numbers stubbed (always Ok) in the clamp harnesses. " + V_TRUST + " Assumed for the printer: visit_number/visit_calculation append some text or fail; the two byte-append idioms (R34).",
    "Kani call-site contracts (straight-line harnesses over unit representatives) + Verus functional contract on the recursive printer",
    "DESIGN.md 5/C16",
)
claim(
    "C17",
    "other",
    "Bounded. MediaQuery::merge against the logical intersection: for each concrete pair of queries the media environment (media type x truth value of every feature condition) is symbolic and "
    "Success(r) must be satisfied by exactly the environments satisfying both queries, Empty only when none does, in both argument orders. Quick tier: one representative pair per branch of merge "
    "(22 pairs incl. case-insensitivity and non-conjunctions); thorough tier: every unordered pair (one per harness) of a 19-query universe - (a), (b), all, all and (a), {none,not,only} x (screen x subsets of {(a),(b)}, print) - minus the "
    "statement's exclusions. Visitor::merge_media_queries: the all-empty case. NOT covered: symbolic query strings, the media query parser/printer, visit_media_rule.",
    K_TRUST + " Query strings are concrete (symbolic strings exhaust CBMC).",
    "Kani harness per concrete query pair with symbolic media environment",
    "DESIGN.md 5/C17",
)
claim(
    "C18",
    "other",
    "Narrow (mechanisms 2 and 5 of 5, plus the indented syntax's own indentation scanner of mechanism 1). Syntax selection by file extension on 10 concrete paths (bounded). Verus: SassParser's indentation look-ahead (peek/read_indentation, comment and selector-list scanners) "
    "terminates, keeps its cache invariant and computes the width of the last line scanned (functional postcondition). Kani: TokenLexer::next on all 156 strings of <= 3 characters over {a, LF, CR, FF, e-acute}: never yields a CR or FF token, token kinds equal the text with CRLF/CR/FF replaced by LF, "
    "positions are increasing byte offsets of the original text with pos + len_utf8 <= len. Bounded stand-in. NOT covered: SCSS vs indented vs CSS agreement (a relation between whole parses), "
    "whitespace/comment insertion, BOM/@charset, `_`/`-` normalisation (interner not executable under Kani).",
    K_TRUST,
    "Kani bounded harness over an exhaustive small-string table",
    "DESIGN.md 5/C18",
)
claim(
    "C19",
    "other",
    "Narrow (location bounds of parser errors only). Unbounded (Verus, unit `lexer`, the real lexer.rs functions extracted by span): for every lexer state - any buffer length - satisfying the data invariant "
    "(every token inside entire_span unless expanded), span_at_index/current_span/prev_span/span_from never violate Span::subspan's assertions and return a span inside entire_span, covering exactly the "
    "addressed character; peek/peek_n/peek_previous/peek_n_backwards/next/next_char_is/set_cursor/cursor meet the contracts every parser unit assumes. The same functions are also checked by Kani on the "
    "unrewritten code for buffers <= 4 tokens (cross-check of the std-idiom rewrites R23-R25). Kani (bounded): Lexer::new_from_string establishes the invariant for all 156 small strings and a symbolic span. NOT covered: the (message, span) construction "
    "sites in parser and evaluator, rendering, @debug/@warn routing, quiet, stdout/stderr silence.",
    K_TRUST,
    "Verus contracts on the real Lexer functions + Kani harnesses on the constructors",
    "DESIGN.md 5/C19",
)

claim(
    "C03",
    "proof",
    "Narrow (mechanism 4 of 5 only: operator precedence climbing in the expression parser). Unbounded proof (Verus, on the text of parse/value.rs and common.rs extracted by span on every run): "
    "BinaryOp::precedence equals the language's precedence table (= ; or ; and ; == != ; < <= > >= ; + - ; * / %); the operator stack of the expression parser keeps, across resolve_one_operation, "
    "resolve_operations, add_operator, add_single_expression, reset_state and resolve_space_expressions, the invariant that pending operators are strictly increasing in precedence from bottom to top with exactly one waiting left operand each - so an operator of "
    "equal or higher precedence is always reduced before a new one is pushed (precedence and left associativity), every pop/unwrap on the two stacks is safe, resolve_operations terminates with an "
    "empty stack, and no operator is left pending when a new space-separated element starts. NOT covered: everything else the statement lists - variables and scoping (evaluate/scope.rs keeps Values behind Arc<RefCell<BTreeMap>>: outside Verus, and dropping a Value ICEs Kani), "
    "control flow, argument binding, and/or short-circuit, string concatenation, the slash-as-division rule, and what the evaluator does with the parsed tree (all Visitor code).",
    V_TRUST + " Assumed, discharged nowhere: parse_single_expression does not touch the operator stack of its caller (nested expressions use a fresh ValueParser) and keeps the lexer well-formed; "
    "AST node construction replaced by opaque constructors (R19); the four Option-idiom rewrites R20/R21 (each turns into a proof obligation).",
    "Verus data-structure invariant on the expression parser's operator stack",
    "DESIGN.md 10.5",
)

NA_C03_REMOVED = (
    "scoping/control flow live in Visitor methods (Kani cannot construct a Visitor: ICE on HashMap/Lazy); the function-shaped part (evaluate/scope.rs) stores Values in "
    "Arc<RefCell<BTreeMap<Identifier,Value>>>: RefCell/Arc<RefCell> are outside Verus, and under Kani dropping a Value reaches HashMap drop glue (kani-compiler ICE, measured) while BTreeMap "
    "operations do not finish in CBMC (measured on css_tree.rs: > 10 min for 3 insertions) (DESIGN 5/C03)"
)
NA["C04"] = (
    "flattening is Visitor code; evaluate/css_tree.rs was attempted with Kani (experiments/kani_not_feasible/c04_css_tree.rs): 3 insertions into its BTreeMap index maps do not finish in 10 min, "
    "and CssStmt drop glue reaches Value/HashMap (ICE); Vec<RefCell<Option<CssStmt>>> is outside Verus (DESIGN 5/C04)"
)
