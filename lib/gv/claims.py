"""What MANIFEST.json claims, per property.  Imported by manifest_gen."""
from .manifest_gen import claim, NA

PENDING = "contracts for this property are specified in DESIGN.md but the check is not built yet in this commit"

claim(
    "C08",
    "proof",
    "Partial (mechanisms 1-3 of 5). Proved for all inputs of the functions under contract: (1) the conversion table, "
    "rewritten mechanically on every run from the current initializer into a match, has an entry exactly for pairs in the "
    "same convertible class of the statement, is 1 on the diagonal, equals the CSS ratios of the statement within 4 ulp, and "
    "is inverse-consistent and transitive within 4 ulp (concrete loops over all pairs/triples, CBMC folds the constants); "
    "(2) the real Unit::comparable/kind agree with the statement's classes on all 37x37 simple units (34 known, None, "
    "Unknown with symbolic key) and 4 complex units, are an equivalence on non-None units, and comparable() implies a table "
    "entry (the precondition of Number::convert). Not covered: multiply_units unit algebra, serializer rejection of complex "
    "units, anything reached only through the Visitor.",
    "Trusted: Kani/CBMC; the table-model rewrite (HashMap/Lazy dropped; cross-checked natively against the real table); "
    "interner injectivity for Unknown units; callers between these functions and the public API are not verified.",
    "Kani function-level contracts (loop-free / concretely unrolled harnesses over the whole unit domain)",
    "DESIGN.md 5/C08",
)

for p in ("C01", "C03", "C04", "C07", "C09", "C15", "C16", "C17", "C18", "C19"):
    NA.setdefault(p, PENDING)
