"""Writes /verif/MANIFEST.json from the tables below (single source of truth)."""
import json
import os

VERIF = os.path.dirname(os.path.dirname(os.path.dirname(os.path.abspath(__file__))))

NA = {
    "C02": "hyperproperty over compilation histories, thread schedules and hash seeds: no contract on one function relates two executions; Kani has no threads and cannot compile the interner / Lazy<HashMap> state involved (DESIGN 5/C02)",
    "C05": "relation between a compile and the compile of its own output plus grammar well-formedness of a fmt-built byte buffer; the 1.2 kLoC serializer (write!/format!) is outside both verifiers (DESIGN 5/C05)",
    "C06": "2-safety property over the output-style option (two runs compared); divergence sites are Visitor code neither verifier reaches (DESIGN 5/C06)",
    "C10": "oracle is selector matching over all DOM trees; the extension engine is HashMap/Arc<RefCell>/String code outside Verus and Kani (DESIGN 5/C10)",
    "C11": "same oracle as C10; entry points are builtins taking &mut Visitor; symbolic strings exhaust CBMC (DESIGN 5/C11)",
    "C12": "module system lives in Visitor/Environment; map views decide through the unsafe thread-local interner that Kani cannot execute (DESIGN 5/C12)",
    "C13": "find_import is a Visitor method over PathBuf strings; Fs-confinement is an effect/frame property of foreign calls that no contract language here states (DESIGN 5/C13)",
    "C14": "every named function is fn(ArgumentResult,&mut Visitor) with inline arithmetic: no callee to contract, cannot be called from a harness; the SassMap part is decided under C09 (DESIGN 5/C14)",
    "C20": "process-level effects (exit status, stdout/stderr separation, files) and clap argument parsing are not postconditions either verifier can state (DESIGN 5/C20)",
}

# property -> (category, text, note, technique, design_ref)
CLAIMS = {}


def claim(pid, category, text, note, technique, ref):
    CLAIMS[pid] = (category, text, note, technique, ref)


def build():
    checks = []
    for pid in sorted(CLAIMS):
        cat, text, note, tech, ref = CLAIMS[pid]
        checks.append(
            {
                "property_id": pid,
                "quick_cmd": "bin/check %s --tier quick" % pid,
                "thorough_cmd": ("VERIF_JOBS=6 " if pid == "C17" else "") + "bin/check %s --tier thorough" % pid,
                "evidence_file": "evidence/%s.json" % pid,
                "replay_cmd_template": "bin/check %s --replay {path}" % pid,
                "engine": "contracts",
                "level_claimed": {"category": cat, "text": text, "design_ref": ref},
                "level_note": note,
                "technique": tech,
            }
        )
    na = [{"property_id": p, "reason": r} for p, r in sorted(NA.items()) if p not in CLAIMS]
    return {
        "version": 1,
        "setup_cmd": "bin/setup",
        "hooks": {
            "guard": "kani",
            "enable": "no source hook is committed to /repo: every check copies /repo's working tree to a scratch directory and appends #[cfg(kani)] child modules there (cfg `kani` is set only by kani-compiler); Verus units are extracted by span from the same copy",
            "baseline_off_cmd": "cd /repo && cargo test --workspace --no-fail-fast --offline",
            "source_commits": [],
            "add_only": True,
        },
        "engines": [
            {
                "name": "contracts",
                "path": "bin/check",
                "serves_properties": sorted(CLAIMS),
                "kind_free_text": "contract-based deductive verification of the real code: Verus 0.2026.09.13 on functions extracted by span on every run (requires/ensures/invariant/decreases), Kani 0.68/CBMC 6.11 harness modules appended to the real crate (K-full = whole finite domain, K-contract = callee replaced by its contract, K-bounded = stated bound)",
            }
        ],
        "checks": checks,
        "not_applicable": na,
        "notes": "Every claim is partial: the level text of each check names the anchored mechanisms that are under contract and those that are not. exit 2 = undecided (tool limit / lost anchor), never an alarm.",
    }


def write():
    from . import claims  # noqa: F401  (fills CLAIMS / NA)

    m = build()
    with open(os.path.join(VERIF, "MANIFEST.json"), "w") as f:
        json.dump(m, f, indent=1)
        f.write("\n")
    return m


