"""check <property> [--tier quick|thorough]: decide one property with the contract machinery.

exit 0  every locked obligation of the property discharged on /repo's current tree
exit 1  a locked obligation got a definite negative verdict: VIOLATION line printed
exit 2  undecided (tool limit, lost anchor, crash, timeout) - never an alarm
"""
import argparse
import json
import os
import sys
import time
import traceback

from . import kani as K
from . import verus as V
from . import replay as R
from .common import VERIF, REPO, Undecided, make_scratch, drop_scratch, log, write_json, install_signal_handlers

LOCK = os.path.join(VERIF, "contracts", "obligations.lock.json")
FINDINGS = os.path.join(VERIF, "known_findings.json")
EVID_DIR = os.environ.get("VERIF_EVIDENCE_DIR") or os.path.join(VERIF, "evidence")
REPLAY_DIR = os.path.join(VERIF, "replay", "out")

# level per property is decided from the obligation kinds actually run:
# all K-full/K-contract/V => proof, any K-bounded => model_checking-style "other"? see evidence()

QUICK_HARNESS_TIMEOUT = int(os.environ.get("VERIF_HARNESS_TIMEOUT", "2400"))
THOROUGH_HARNESS_TIMEOUT = int(os.environ.get("VERIF_HARNESS_TIMEOUT_THOROUGH", "9000"))


def load_json(p, default):
    if os.path.exists(p):
        with open(p) as f:
            return json.load(f)
    return default


def tier_ok(ob, tier):
    t = ob.get("tier", "quick")
    return t == "quick" or tier == "thorough"


def main(argv=None):
    ap = argparse.ArgumentParser()
    ap.add_argument("prop")
    ap.add_argument("--tier", default=os.environ.get("VERIF_TIER", "quick"), choices=["quick", "thorough"])
    ap.add_argument("--relock", action="store_true", help="rewrite the lock entry of this property from this run (only on a green run)")
    ap.add_argument("--relock-static", action="store_true", help="rewrite the lock entry from the obligation ids declared in contracts/ (no verification run)")
    ap.add_argument("--replay", help="re-run the replay recorded in the given file")
    ap.add_argument("--only", help="comma list of harness/function name substrings (debugging; never passes the lock check)")
    ap.add_argument("--jobs", type=int, default=int(os.environ.get("VERIF_JOBS", "16")))
    a = ap.parse_args(argv)
    install_signal_handlers()
    seed = int(os.environ.get("VERIF_SEED", "0") or 0)
    prop = a.prop
    t0 = time.time()
    if a.replay:
        return R.replay_file(a.replay)
    if a.relock_static:
        contracts = K.load_contracts()
        ids = [o["id"] for c in contracts for o in c.obligations if prop in o["props"] and tier_ok(o, a.tier)]
        for u in V.units_for(prop, a.tier):
            ids += ["%s/V/%s/%s" % (u.props[0], u.name, f["path"].split("::")[-1]) for f in u.fns if f.get("mode", "verify") == "verify"]
        lock = load_json(LOCK, {})
        lock.setdefault(prop, {})[a.tier] = sorted(ids)
        write_json(LOCK, lock)
        print("lock %s/%s = %d obligations (static)" % (prop, a.tier, len(ids)))
        return 0
    scratch = None
    try:
        result = decide(prop, a.tier, a.jobs, a.only, a.relock, seed, t0)
    except Undecided as e:
        log("UNDECIDED property=%s: %s" % (prop, e))
        if not a.only:  # a developer-loop run never replaces the evidence of a full run
            write_evidence_undecided(prop, a.tier, seed, t0, str(e))
        return 2
    except Exception:
        traceback.print_exc()
        if not a.only:
            write_evidence_undecided(prop, a.tier, seed, t0, "internal error")
        return 2
    return result


def write_evidence_undecided(prop, tier, seed, t0, why):
    write_json(
        os.path.join(EVID_DIR, prop + ".json"),
        {
            "property_id": prop,
            "tier": tier,
            "seed": seed,
            "level": "other",
            "coverage": {"explanation": "UNDECIDED: " + why, "obligations": 0, "discharged": 0},
            "assumptions": [],
            "wall_s": round(time.time() - t0, 2),
            "violations": 0,
        },
    )


def decide(prop, tier, jobs, only, relock, seed, t0):
    contracts = K.load_contracts()
    kobs = [o for c in contracts for o in c.obligations if prop in o["props"] and tier_ok(o, tier)]
    vunits = V.units_for(prop, tier)
    lock = load_json(LOCK, {})
    findings = load_json(FINDINGS, {"findings": [], "fixed": []})
    if only:
        pats = only.split(",")
        kobs = [o for o in kobs if any(p in o["harness"] for p in pats)]
        vunits = [u for u in vunits if any(p in u.name for p in pats)]
    if not kobs and not vunits:
        raise Undecided("no obligations defined for %s (tier %s)" % (prop, tier))

    results = {}  # obligation id -> dict(status=discharged|failed|undecided, ...)
    meta = {"kani": None, "verus": []}
    scratch = make_scratch(prop)
    try:
        # ---------------- Verus units (fast, first) ----------------
        # the units are independent single-file runs of a few seconds each: four at a time
        from concurrent.futures import ThreadPoolExecutor

        with ThreadPoolExecutor(max_workers=4) as ex:
            for r in ex.map(lambda u: V.run_unit(u, scratch), vunits):
                meta["verus"].append(r["meta"])
                results.update(r["obligations"])
        # ---------------- Kani ----------------
        if kobs:
            files = K.select(contracts, prop)
            inj = K.inject(scratch, files)
            K.prepare_crate(scratch)
            logfile = os.path.join(scratch, "kani.log")
            hto = QUICK_HARNESS_TIMEOUT if tier == "quick" else THOROUGH_HARNESS_TIMEOUT
            harnesses = [o["harness"] for o in kobs if o["kind"] != "native-check"]
            log("[kani] %d harnesses, -j %d, harness timeout %ds" % (len(harnesses), jobs, hto))
            rc, out, secs, timed_out = K.run_kani(scratch, harnesses, logfile, timeout=hto * 3 + 600, jobs=jobs, harness_timeout=hto)
            parsed = K.parse_output(out)
            meta["kani"] = {"wall_s": round(secs, 1), "rc": rc, "injected": inj, "cmd": K.last_cmd()}
            if not parsed:
                raise Undecided("cargo kani produced no harness results (rc=%s): %s" % (rc, K.compile_errors(out)))
            for o in kobs:
                if o["kind"] != "native-check":
                    results[o["id"]] = K.classify(o, parsed.get(o["harness"]))
            # counterexamples for failed obligations, replayed natively against the real code
            native = {}

            def native_exe():
                if "exe" not in native:
                    log("[replay] building the crate natively with --cfg verif_replay")
                    native["exe"], native["err"] = R.build_native(scratch)
                return native["exe"], native.get("err", "")

            # native validation of mechanically generated models (not a verdict on the property:
            # a disagreement means the extraction is wrong -> undecided, never an alarm)
            for o in kobs:
                if o["kind"] == "native-check":
                    results[o["id"]] = R.native_check(scratch, o, native_exe)
            for o in kobs:
                r = results[o["id"]]
                if r["status"] == "failed":
                    log("[replay] extracting Kani's counterexample for %s" % o["harness"])
                    r["replay"] = R.kani_counterexample(scratch, o, r, min(hto, 900), native_exe)
                    log("[replay]   native result: %s" % r["replay"].get("native_result", r["replay"].get("why")))
        # Verus gives no model: bounded witness search through the public entry point for failed
        # termination / panic obligations of parser functions (documentation of the violation only)
        for oid, r in results.items():
            # only for the parser units: a hang or panic is what their obligations exclude; for functional
            # contracts (C16 printer) a crash search documents nothing
            if r.get("engine") == "verus/z3" and r["status"] == "failed" and r.get("witness_hint") and not os.environ.get("VERIF_NO_WITNESS_SEARCH") and "/parse/" in (r["witness_hint"].get("source") or "") + "/":
                if any(k in (r.get("note") or "") for k in ("decreases", "arithmetic", "precondition", "assertion", "unreachable", "index")):
                    log("[replay] searching a concrete witness for %s" % oid)
                    h = r.pop("witness_hint")
                    r["replay"] = R.witness_search(scratch, h["source"], h["text"])
                    log("[replay]   %s" % (r["replay"].get("native_result") or r["replay"].get("why")))
            r.pop("witness_hint", None)
        # ---------------- verdict ----------------
        return verdict(prop, tier, seed, t0, results, kobs, vunits, meta, lock, findings, relock, bool(only), scratch)
    finally:
        drop_scratch(scratch)


def verdict(prop, tier, seed, t0, results, kobs, vunits, meta, lock, findings, relock, partial, scratch):
    ids = sorted(results)
    locked = set(lock.get(prop, {}).get(tier, []))
    discharged = [i for i in ids if results[i]["status"] == "discharged"]
    failed = [i for i in ids if results[i]["status"] == "failed"]
    undecided = [i for i in ids if results[i]["status"] == "undecided"]
    known = []
    violations = []
    for i in failed:
        r = results[i]
        kf = match_finding(findings, prop, i, r)
        if kf:
            known.append((i, kf))
        else:
            violations.append(i)
    for i in ids:
        r = results[i]
        log("  %-62s %-10s %6.1fs %s" % (i, r["status"], r.get("time") or 0.0, r.get("note", "")))
    rc = 0
    os.makedirs(REPLAY_DIR, exist_ok=True)
    for i, kf in known:
        print("KNOWN-FINDING: property=%s %s" % (prop, kf["what"]))
    for i in violations:
        r = results[i]
        path = R.write_replay_file(prop, i, r)
        tail = "" if r.get("replay", {}).get("reproduced") else " no-failing-input-found"
        print("VIOLATION property=%s replay=%s obligation=%s%s" % (prop, path, i, tail))
        rc = 1
    missing = sorted(locked - set(ids)) if not partial else []
    never_locked_failed = [i for i in violations if i not in locked]
    if rc == 0:
        if undecided:
            log("UNDECIDED property=%s: %d obligation(s) without verdict: %s" % (prop, len(undecided), ", ".join(undecided)))
            rc = 2
        elif missing:
            log("UNDECIDED property=%s: locked obligations not generated: %s" % (prop, ", ".join(missing)))
            rc = 2
        elif not discharged and not known:
            log("UNDECIDED property=%s: zero obligations discharged" % prop)
            rc = 2
    if relock and rc == 0 and not partial:
        lock.setdefault(prop, {})[tier] = ids
        write_json(LOCK, lock)
        log("lock updated: %s/%s = %d obligations" % (prop, tier, len(ids)))
    elif rc == 0 and not partial and set(ids) != locked:
        extra = sorted(set(ids) - locked)
        log("UNDECIDED property=%s: obligations not in lock (run --relock after review): %s" % (prop, ", ".join(extra)))
        rc = 2
    if not partial:  # a --only run (developer loop) never replaces the evidence of a full run
        write_evidence(prop, tier, seed, t0, results, kobs, vunits, meta, known, violations)
    if rc == 0:
        print("PASS property=%s tier=%s obligations=%d discharged=%d known_findings=%d wall=%.0fs" % (prop, tier, len(ids), len(discharged), len(known), time.time() - t0))
    return rc


def match_finding(findings, prop, ob_id, r):
    """A listed finding suppresses a failure only when obligation id AND the failing site/witness match."""
    for f in findings.get("findings", []):
        if f.get("property") != prop or f.get("obligation") != ob_id:
            continue
        sites = set(r.get("sites", []))
        want = set(f.get("sites", []))
        if want and sites and sites <= want:
            return f
    return None


def write_evidence(prop, tier, seed, t0, results, kobs, vunits, meta, known, violations):
    ids = sorted(results)
    kinds = {}
    for i in ids:
        kinds.setdefault(results[i].get("kind", "?"), []).append(i)
    bounded = [i for i in ids if results[i].get("kind") == "K-bounded"]
    discharged = [i for i in ids if results[i]["status"] == "discharged"]
    proved = [i for i in discharged if results[i].get("kind") != "K-bounded"]
    level = "proof" if not bounded else "other"
    # the level reported is the one claimed in MANIFEST.json (never stronger than what was run:
    # a claim of `proof` is downgraded to `other` if a bounded stand-in took part)
    try:
        man = load_json(os.path.join(VERIF, "MANIFEST.json"), {})
        claimed = [c["level_claimed"]["category"] for c in man.get("checks", []) if c["property_id"] == prop]
        if claimed:
            level = claimed[0] if not (claimed[0] == "proof" and bounded) else "other"
    except Exception:
        pass
    samples = []
    for i in ids[:400]:
        r = results[i]
        samples.append(
            {
                "obligation": i,
                "engine": r.get("engine"),
                "kind": r.get("kind"),
                "bound": r.get("bound"),
                "status": r["status"],
                "functions": r.get("fns"),
                "what": r.get("desc"),
                "solver_time_s": r.get("time"),
                "cbmc_checks": r.get("checks"),
                "covers_satisfied": r.get("cover"),
            }
        )
    assumptions = []
    trusted = []
    fn_under_contract = []
    if meta.get("kani"):
        assumptions += K.assumptions_for(kobs, meta["kani"])
        trusted += ["kani-compiler 0.68 / CBMC 6.11 / CaDiCaL", "rustc (Kani's pinned nightly)"]
    for vm in meta.get("verus", []):
        assumptions += vm.get("assumptions", [])
        fn_under_contract += vm.get("functions", [])
        trusted += ["Verus 0.2026.09.13 / Z3 (bundled)"]
    for o in kobs:
        for f in (o.get("fns") or "").split(","):
            if f and f not in fn_under_contract:
                fn_under_contract.append(f)
    nontrivial = len([i for i in discharged if results[i].get("nontrivial", True)])
    cov = {
        "obligations": len(ids),
        "discharged": len(discharged),
        "proved_unbounded_or_full_domain": len(proved),
        "bounded_stand_ins": len(bounded),
        "bounded_list": [{"obligation": i, "bound": results[i].get("bound")} for i in bounded],
        "checker_cmd": "bin/check %s --tier %s  (kani: %s; verus: %s)" % (prop, tier, (meta.get("kani") or {}).get("cmd", "-"), "; ".join(vm.get("cmd", "") for vm in meta.get("verus", [])) or "-"),
        "trusted_base": sorted(set(trusted)),
        "evaluations": len(ids),
        "distinct_nontrivial": nontrivial,
        "rule": "one evaluation = one obligation (a Kani harness or a Verus function) generated from /repo's current source; non-trivial = discharged and its vacuity guard held (Kani: every kani::cover! in the harness satisfiable; Verus: the unit's must-fail probe failed, so the preconditions are satisfiable)",
        "samples": samples,
        "functions_under_contract": fn_under_contract,
        "by_kind": {k: len(v) for k, v in kinds.items()},
        "engines": {"kani": meta.get("kani"), "verus": meta.get("verus")},
        "known_findings_reported": [k[1]["what"] for k in known],
        "explanation": "contract-based deductive verification: every obligation is generated from the current source text of /repo and discharged by Verus (SMT, unbounded) or Kani/CBMC (bit-precise; K-full = whole finite domain, K-contract = relative to listed assumed contracts, K-bounded = stated data bound, not counted as proved)",
        "exhaustive": False,
    }
    ev = {
        "property_id": prop,
        "tier": tier,
        "seed": seed,
        "level": level,
        "coverage": cov,
        "assumptions": sorted(set(assumptions)),
        "wall_s": round(time.time() - t0, 2),
        "violations": len(violations),
    }
    write_json(os.path.join(EVID_DIR, prop + ".json"), ev)
