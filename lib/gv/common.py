"""Shared plumbing: scratch copies of /repo, subprocess with limits, evidence."""
import json
import os
import resource
import shutil
import signal
import subprocess
import sys
import time

VERIF = os.path.dirname(os.path.dirname(os.path.dirname(os.path.abspath(__file__))))
REPO = os.environ.get("VERIF_REPO", "/repo")
VX = os.path.join(VERIF, "tools", "vx", "target", "release", "vx")
COMPILER_SRC = "crates/compiler/src"


class Undecided(Exception):
    """Tool limit / lost anchor / crash: exit 2, never an alarm."""


def log(*a):
    print(*a, file=sys.stderr, flush=True)


def scratch_base():
    return os.environ.get("VERIF_SCRATCH", "/tmp")


def make_scratch(tag):
    """Copy /repo's *working tree* (minus build output, spec corpus, .git) outside /repo and /verif."""
    d = os.path.join(scratch_base(), "grass-verif-%s-%d-%d" % (tag, os.getpid(), int(time.time())))
    if os.path.exists(d):
        shutil.rmtree(d)
    os.makedirs(d)
    r = subprocess.run(
        ["rsync", "-a", "--exclude", "/target", "--exclude", "/sass-spec", "--exclude", ".git", REPO + "/", d + "/"],
        capture_output=True,
        text=True,
    )
    if r.returncode != 0:
        raise Undecided("rsync of %s failed: %s" % (REPO, r.stderr[-500:]))
    _SCRATCH_DIRS.add(d)
    return d


def drop_scratch(d):
    if d and os.path.isdir(d) and not os.environ.get("VERIF_KEEP_SCRATCH"):
        shutil.rmtree(d, ignore_errors=True)
    _SCRATCH_DIRS.discard(d)


_CHILD_PGIDS = set()
_SCRATCH_DIRS = set()


def _on_term(signum, frame):
    for pg in list(_CHILD_PGIDS):
        try:
            os.killpg(pg, signal.SIGKILL)
        except Exception:
            pass
    for d in list(_SCRATCH_DIRS):
        shutil.rmtree(d, ignore_errors=True)
    os._exit(2)


def install_signal_handlers():
    signal.signal(signal.SIGTERM, _on_term)
    signal.signal(signal.SIGINT, _on_term)
    signal.signal(signal.SIGHUP, _on_term)


def run(cmd, cwd=None, env=None, timeout=None, mem_gb=None, stdout_path=None):
    """Run a command with wall-clock and address-space limits; returns (rc, stdout+stderr text, seconds, timed_out)."""
    e = dict(os.environ)
    e["CARGO_NET_OFFLINE"] = "true"
    if env:
        e.update(env)

    def pre():
        os.setsid()
        if mem_gb:
            lim = int(mem_gb * (1 << 30))
            resource.setrlimit(resource.RLIMIT_AS, (lim, lim))

    t0 = time.time()
    out_f = open(stdout_path, "w") if stdout_path else subprocess.PIPE
    p = subprocess.Popen(cmd, cwd=cwd, env=e, stdout=out_f, stderr=subprocess.STDOUT, text=True, preexec_fn=pre)
    _CHILD_PGIDS.add(p.pid)
    timed_out = False
    try:
        out, _ = p.communicate(timeout=timeout)
    except subprocess.TimeoutExpired:
        timed_out = True
        try:
            os.killpg(p.pid, signal.SIGKILL)
        except ProcessLookupError:
            pass
        out, _ = p.communicate()
    try:
        os.killpg(p.pid, signal.SIGKILL)  # stragglers (cbmc children) of a finished run
    except Exception:
        pass
    _CHILD_PGIDS.discard(p.pid)
    if stdout_path:
        out_f.close()
        out = open(stdout_path, errors="replace").read()
    return p.returncode, out or "", time.time() - t0, timed_out


def vx_index(path):
    if not os.path.exists(VX):
        raise Undecided("vx not built: run MANIFEST.setup_cmd (%s missing)" % VX)
    r = subprocess.run([VX, "index", path], capture_output=True, text=True)
    if r.returncode != 0:
        raise Undecided("vx index %s: %s" % (path, r.stderr.strip()[-300:]))
    return json.loads(r.stdout)


def find_fn(index, path, trait=None):
    c = [f for f in index["fns"] if f["path"] == path and (trait is None or f["trait"] == trait)]
    if len(c) != 1:
        raise Undecided("anchor lost: function %s%s found %d times in %s" % (path, " (%s)" % trait if trait else "", len(c), index["file"]))
    return c[0]


def write_json(path, obj):
    os.makedirs(os.path.dirname(path), exist_ok=True)
    tmp = path + ".tmp"
    with open(tmp, "w") as f:
        json.dump(obj, f, indent=1, sort_keys=False)
        f.write("\n")
    os.replace(tmp, path)
