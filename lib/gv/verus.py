"""Engine V placeholder (filled in below)."""


def units_for(prop, tier):
    return []


def run_unit(u, scratch):
    raise NotImplementedError
