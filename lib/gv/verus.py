"""Engine V: Verus on functions extracted mechanically (by span) from /repo on every run.

A unit is described by contracts/verus/<unit>.toml:

  name, props, tier (optional), source (file in /repo), prelude (file in contracts/verus),
  container = "impl P"            where the extracted functions are placed
  rules = ["R1",...]              syntactic rewrite rules allowed for this unit (DESIGN 3.2)
  [defs] NAME = "text"            $NAME substitution inside clauses
  [[fn]] path=, trait= (optional), mode = "verify" | "external"
         requires=[..] ensures=[..] ret="r"
         [[fn.loop]] invariant=[..] decreases=".." ghost=[..]   (k-th table = k-th loop, pre-order)
         probe = false            suppress the must-fail satisfiability probe of the precondition

What is verified is the repository's text: the extractor copies bytes by the spans
`vx index` reports and applies only the declared rules, counting each application.
"""
import glob
import hashlib
import json
import os
import re
import tomllib

from .common import VERIF, COMPILER_SRC, Undecided, run, vx_index, find_fn, log

UNIT_DIR = os.environ.get("VERIF_UNIT_DIR") or os.path.join(VERIF, "contracts", "verus")  # the override is for the developer loop only (bin/vdev)

DEFINITE = [
    (re.compile(r"postcondition not satisfied"), "postcondition"),
    (re.compile(r"precondition not satisfied"), "precondition"),
    (re.compile(r"invariant not satisfied"), "invariant"),
    (re.compile(r"decreases not satisfied"), "decreases"),
    (re.compile(r"could not prove termination"), "recursion measure does not decrease"),
    (re.compile(r"assertion failed"), "assertion"),
    (re.compile(r"possible arithmetic (underflow/overflow|overflow|underflow)"), "arithmetic overflow"),
    (re.compile(r"possible division by zero"), "division by zero"),
    (re.compile(r"possible bit shift underflow/overflow"), "shift overflow"),
    (re.compile(r"unreachable|unreached"), "reachable unreachable!()"),
    (re.compile(r"index out of bounds|possible out.of.bounds"), "index out of bounds"),
    (re.compile(r"loop invariant not|cannot show invariant"), "invariant"),
]


class Unit:
    def __init__(self, path):
        self.path = path
        with open(path, "rb") as f:
            self.d = tomllib.load(f)
        self.name = self.d["name"]
        self.props = self.d["props"]
        self.tier = self.d.get("tier", "quick")
        self.source = self.d["source"]
        self.prelude = self.d.get("prelude")
        self.preludes = [self.prelude] if isinstance(self.prelude, str) else list(self.prelude or [])
        self.prelude = self.preludes[0] if self.preludes else None
        self.container = self.d.get("container", "impl P")
        self.rules = self.d.get("rules", [])
        self.defs = self.d.get("defs", {})
        self.fns = list(self.d.get("fn", []))
        self.extra = self.d.get("extra", "")


def load_units():
    units = [Unit(p) for p in sorted(glob.glob(os.path.join(UNIT_DIR, "*.toml")))]
    by_name = {u.name: u for u in units}
    # `[[import]] unit = "x" paths = [..]`: the callee's contract is taken verbatim from the unit
    # that proves it and included here as external_body (one source of truth per contract)
    for u in units:
        for imp in u.d.get("import", []):
            src = by_name.get(imp["unit"])
            if src is None:
                raise Undecided("unit %s imports unknown unit %s" % (u.name, imp["unit"]))
            for path in imp["paths"]:
                cand = [f for f in src.d.get("fn", []) if f["path"] == path]
                if len(cand) != 1:
                    raise Undecided("unit %s imports %s which unit %s does not define" % (u.name, path, imp["unit"]))
                f = dict(cand[0])
                f["mode"] = "external"
                f["imported_from"] = imp["unit"]
                f.setdefault("source", src.source)
                for k in ("requires", "ensures"):
                    f[k] = [subst(src.defs, c) for c in f.get(k, [])]
                # frame of the importing container's extra fields (BaseParser default methods
                # can only reach the lexer through toks()/toks_mut())
                # (only for `&mut self` functions: decided when the signature is read)
                f["_frame"] = list(imp.get("frame", []))
                f.pop("loop", None)
                # body rewrites are irrelevant for an imported contract, signature rewrites (R31 token
                # types) still apply: external mode applies only those whose fragment occurs in the signature
                f.pop("proof", None)
                f.pop("no_termination", None)
                if imp.get("container"):
                    # the imported function belongs to another type than the import container
                    f["container_override"] = imp["container"]
                u.fns.append(f)
    return units


def units_for(prop, tier):
    return [u for u in load_units() if prop in u.props and (u.tier == "quick" or tier == "thorough")]


def subst(defs, s):
    for _ in range(4):
        s2 = re.sub(r"\$(\w+)", lambda m: defs.get(m.group(1), m.group(0)), s)
        if s2 == s:
            break
        s = s2
    return s


def clause_block(kw, clauses, defs, indent):
    cl = [subst(defs, c).strip() for c in clauses if c.strip()]
    if not cl:
        return ""
    return "\n" + indent + kw + "\n" + "".join(indent + "    " + c + ",\n" for c in cl)


def check_accessor_impls(scratch, counts):
    """R1 is sound only if every `impl BaseParser for X` has the trivial accessors."""
    n = 0
    for p in sorted(glob.glob(os.path.join(scratch, COMPILER_SRC, "**", "*.rs"), recursive=True)):
        txt = open(p, errors="replace").read()
        if "BaseParser for" not in txt:
            continue
        idx = vx_index(p)
        raw = open(p, "rb").read()
        for f in idx["fns"]:
            if f["trait"] == "BaseParser" and f["path"].endswith("::toks"):
                body = " ".join(raw[f["body_open"] : f["body_close"] + 1].decode().split())
                if body != "{ &self.toks }":
                    raise Undecided("R1 not applicable: %s in %s is %r" % (f["path"], p, body))
                n += 1
            if f["trait"] == "BaseParser" and f["path"].endswith("::toks_mut"):
                body = " ".join(raw[f["body_open"] : f["body_close"] + 1].decode().split())
                if body != "{ &mut self.toks }":
                    raise Undecided("R1 not applicable: %s in %s is %r" % (f["path"], p, body))
                n += 1
    if n == 0:
        raise Undecided("R1 not applicable: no BaseParser accessor impl found")
    counts["R1_accessor_impls_checked"] = n


def check_flag_accessor_impls(scratch, counts):
    """R27 (`self.flags_mut().set(F, v)` as one lexer-preserving method) is sound only if every
    `impl StylesheetParser for X` returns its own `flags` field, a field distinct from `toks`."""
    n = 0
    for p in sorted(glob.glob(os.path.join(scratch, COMPILER_SRC, "**", "*.rs"), recursive=True)):
        txt = open(p, errors="replace").read()
        if "StylesheetParser<" not in txt or " for " not in txt:
            continue
        idx = vx_index(p)
        raw = open(p, "rb").read()
        for f in idx["fns"]:
            if not (f["trait"] or "").startswith("StylesheetParser") or f["kind"] != "trait_impl":
                continue
            for nm, want in (("flags", "{ &self.flags }"), ("flags_mut", "{ &mut self.flags }")):
                if f["path"].endswith("::" + nm) and f.get("body_open") is not None:
                    body = " ".join(raw[f["body_open"] : f["body_close"] + 1].decode().split())
                    if body != want:
                        raise Undecided("R27 not applicable: %s in %s is %r" % (f["path"], p, body))
                    n += 1
    if n == 0:
        raise Undecided("R27 not applicable: no StylesheetParser flag accessor impl found")
    counts["R27_flag_accessor_impls_checked"] = n


def apply_edits(raw, base, edits):
    """edits: (start,end,replacement) in absolute byte offsets, non-overlapping; returns text of raw[base_start:base_end] edited"""
    s0, s1 = base
    out = []
    pos = s0
    for a, b, rep in sorted(edits, key=lambda e: (e[0], e[1])):
        if a < pos:
            raise Undecided("overlapping rewrite at byte %d" % a)
        out.append(raw[pos:a].decode())
        out.append(rep)
        pos = b
    out.append(raw[pos:s1].decode())
    return "".join(out)


def assemble_fn(unit, spec, idx, raw, counts):
    f = find_fn(idx, spec["path"], spec.get("trait"))
    if f["kind"] == "trait_decl":
        raise Undecided("function %s has no body" % spec["path"])
    defs = unit.defs
    mode = spec.get("mode", "verify")
    edits = []
    # R5: visibility
    head = raw[f["start"] : f["sig_start"]].decode()
    m = re.search(r"pub(\([^)]*\))?\s+$", head)
    if m:
        if "R5" not in unit.rules:
            raise Undecided("%s needs R5" % spec["path"])
        edits.append((f["start"] + len(head[: m.start()].encode()), f["sig_start"], ""))
        counts["R5"] = counts.get("R5", 0) + 1
    # return value name
    rname = spec.get("ret", "r")
    if f["ret"]:
        a, b = f["ret"]
        edits.append((a, b, "(%s: %s)" % (rname, raw[a:b].decode())))
    ens = list(spec.get("ensures", []))
    if spec.get("_frame") and re.search(r"&\s*mut\s+self", raw[f["sig_start"] : f["body_open"]].decode()):
        ens += spec["_frame"]
    contract = clause_block("requires", spec.get("requires", []), defs, "        ") + clause_block("ensures", ens, defs, "        ")
    if spec.get("fn_decreases"):
        # termination measure of a (mutually) recursive function
        contract += "        decreases " + subst(defs, spec["fn_decreases"]) + ",\n"
    if mode == "external":
        sig = apply_edits(raw, (f["sig_start"], f["body_open"]), [e for e in edits if e[0] >= f["sig_start"]])
        for sub in spec.get("subst", []):
            if not sub.get("regex") and "from" in sub and sub["from"] in sig:
                sig = sig.replace(sub["from"], sub["to"])
                counts["subst(sig):" + sub.get("why", sub["from"])] = counts.get("subst(sig):" + sub.get("why", sub["from"]), 0) + 1
        text = "    #[verifier::external_body]\n    " + sig.rstrip() + contract + "    { unimplemented!() }\n"
        return f, text, []
    if contract:
        edits.append((f["body_open"], f["body_open"], contract.lstrip("\n").rstrip() + "\n    "))
        # keep a newline before the clauses
        edits[-1] = (f["body_open"], f["body_open"], "\n" + contract.strip("\n") + "\n    ")
    # loops
    lspecs = spec.get("loop", [])
    if len(lspecs) > len(f["loops"]):
        # a loop the contract knows has disappeared (e.g. `while let` rewritten as `if let`): the
        # function is still checked against its own requires/ensures; loop contracts are aligned
        # with the remaining loops by kind, in order, and the ones without a partner are dropped
        aligned = []
        k = 0
        for lp in f["loops"]:
            while k < len(lspecs) and lspecs[k].get("kind") not in (None, lp["kind"]):
                k += 1
            if k == len(lspecs):
                raise Undecided("anchor lost: loops of %s no longer match the contract" % spec["path"])
            aligned.append(lspecs[k])
            k += 1
        counts["loop_contracts_dropped"] = counts.get("loop_contracts_dropped", 0) + len(lspecs) - len(aligned)
        lspecs = aligned
    if len(lspecs) != len(f["loops"]):
        raise Undecided("anchor lost: %s has %d loops, contract has %d" % (spec["path"], len(f["loops"]), len(lspecs)))
    for k, (lp, ls) in enumerate(zip(f["loops"], lspecs)):
        inv = (
            clause_block("invariant_except_break", ls.get("invariant_except_break", []), defs, "            ")
            + clause_block("invariant", ls.get("invariant", []), defs, "            ")
            + clause_block("ensures", ls.get("ensures", []), defs, "            ")
        )
        dec = subst(defs, ls.get("decreases", "")).strip()
        dec_txt = ("            decreases " + dec + ",\n") if dec else ""
        lc = inv + dec_txt
        if ls.get("kind") and ls["kind"] != lp["kind"]:
            raise Undecided("anchor lost: loop %d of %s is `%s`, contract expects `%s`" % (k, spec["path"], lp["kind"], ls["kind"]))
        ghost = "".join("let ghost %s;\n            " % subst(defs, g) for g in ls.get("ghost", []))
        if ghost:
            edits.append((lp["start"], lp["start"], ghost))
        if lp["kind"] == "while_let":
            if "R3" not in unit.rules:
                raise Undecided("%s loop %d needs R3" % (spec["path"], k))
            if lp["by_ref"]:
                raise Undecided("R3 not applicable: `ref` binding in while-let of %s" % spec["path"])
            pat = raw[lp["a"][0] : lp["a"][1]].decode()
            expr = raw[lp["b"][0] : lp["b"][1]].decode()
            binds = lp["binds"]
            if len(binds) == 0:
                bl = br = "()"
            elif len(binds) == 1:
                bl = br = binds[0]
            else:
                bl = br = "(" + ", ".join(binds) + ")"
            label = ("'%s: " % lp["label"]) if lp["label"] else ""
            rep = "%sloop%s        {\n            let %s = match %s { %s => %s, _ => break };" % (label, "\n" + lc if lc else " ", bl, expr, pat, br)
            edits.append((lp["start"], lp["body_open"] + 1, rep))
            counts["R3"] = counts.get("R3", 0) + 1
        else:
            if lc:
                edits.append((lp["body_open"], lp["body_open"], "\n" + lc + "        "))
    # R4: debug_assert
    for m_ in f["macros"]:
        if m_["name"] in ("debug_assert", "debug_assert_eq", "debug_assert_ne"):
            if "R4" not in unit.rules:
                raise Undecided("%s needs R4" % spec["path"])
            edits.append((m_["start"], m_["end"], "/* R4: debug_assert dropped */"))
            counts["R4"] = counts.get("R4", 0) + 1
        # R32: always-on run-time assertions are panics when false: they become calls of the prelude's
        # `runtime_assert`, whose precondition is the asserted condition (an obligation, not an assumption)
        if m_["name"] in ("assert", "assert_eq", "assert_ne"):
            if "R32" not in unit.rules:
                raise Undecided("%s needs R32 (%s!)" % (spec["path"], m_["name"]))
            mtxt = raw[m_["start"] : m_["end"]].decode()
            mm = re.match(r"(assert(?:_eq|_ne)?)!\s*\((.*)\)\s*;?\s*$", mtxt, re.S)
            if not mm:
                raise Undecided("R32: cannot read %r in %s" % (mtxt, spec["path"]))
            args, depth, cur = [], 0, ""
            for ch in mm.group(2):
                if ch in "([{":
                    depth += 1
                elif ch in ")]}":
                    depth -= 1
                if ch == "," and depth == 0:
                    args.append(cur.strip())
                    cur = ""
                else:
                    cur += ch
            if cur.strip():
                args.append(cur.strip())
            if mm.group(1) == "assert":
                cond = "(%s)" % args[0]
            elif len(args) >= 2:
                cond = "(%s) %s (%s)" % (args[0], "==" if mm.group(1) == "assert_eq" else "!=", args[1])
            else:
                raise Undecided("R32: cannot read %r in %s" % (mtxt, spec["path"]))
            edits.append((m_["start"], m_["end"], "runtime_assert(%s);" % cond))
            counts["R32"] = counts.get("R32", 0) + 1
    text = apply_edits(raw, (f["start"], f["end"]), edits)
    # R1: accessors
    if "R1" in unit.rules:
        text, n1 = re.subn(r"\b(self|parser)\s*\.\s*toks_mut\(\)", r"\1.toks", text)
        text, n2 = re.subn(r"\b(self|parser)\s*\.\s*toks\(\)", r"\1.toks", text)
        counts["R1"] = counts.get("R1", 0) + n1 + n2
    # proof hints (ghost code) spliced in front of a uniquely identified source fragment
    for ph in spec.get("proof", []):
        # ghost code only: a `proof { .. }` block, or (ghost = true) a `let ghost x = ..;` snapshot; placed
        # before or after a uniquely identified source fragment (whitespace-insensitive for `after`/`before_ws`)
        frag = ph.get("before") or ph["after"]
        pat = r"\s+".join(re.escape(w) for w in frag.split())
        ms = list(re.finditer(pat, text))
        if len(ms) != 1:
            raise Undecided("anchor lost: proof-hint anchor %r occurs %d times in %s" % (frag, len(ms), spec["path"]))
        body = subst(defs, ph["text"])
        if ph.get("ghost"):
            if not re.fullmatch(r"\s*(let ghost [^;]*;\s*)+", body):
                raise Undecided("ghost hint of %s is not a list of `let ghost` statements" % spec["path"])
            ins = body
        else:
            ins = "proof { " + body + " }"
        a, b = ms[0].span()
        if "before" in ph:
            text = text[:a] + ins + "\n            " + text[a:]
        else:
            text = text[:b] + "\n            " + ins + text[b:]
        counts["proof_hints"] = counts.get("proof_hints", 0) + 1
    # declared textual substitutions (each must apply the stated number of times)
    for sub in spec.get("subst", []):
        if sub.get("regex"):
            text, n = re.subn(sub["from"], sub["to"], text)
            if n != sub.get("count", 1):
                raise Undecided("anchor lost: substitution /%s/ applies %d times in %s (expected %d)" % (sub["from"], n, spec["path"], sub.get("count", 1)))
            counts["subst:" + sub.get("why", sub["from"])] = counts.get("subst:" + sub.get("why", sub["from"]), 0) + n
            continue
        if "from_any" in sub:
            # alternative spellings of the same idiom: exactly one of them must occur (the stated number of times)
            hits = [alt for alt in sub["from_any"] if text.count(alt) > 0]
            if len(hits) != 1:
                raise Undecided("anchor lost: substitution alternatives %r: %d of them occur in %s (expected exactly 1)" % (sub["from_any"], len(hits), spec["path"]))
            sub = dict(sub, **{"from": hits[0]})
        n = text.count(sub["from"])
        if n != sub.get("count", 1):
            raise Undecided("anchor lost: substitution %r applies %d times in %s (expected %d)" % (sub["from"], n, spec["path"], sub.get("count", 1)))
        text = text.replace(sub["from"], sub["to"])
        counts["subst:" + sub.get("why", sub["from"])] = counts.get("subst:" + sub.get("why", sub["from"]), 0) + n
    probes = []
    req = [subst(defs, c) for c in spec.get("requires", [])]
    if req and spec.get("probe", True) and f["has_self"]:
        pname = "sat_probe_" + re.sub(r"\W+", "_", spec["path"])
        args = spec.get("probe_args", "")
        r2 = [re.sub(r"\bself\b", "s", re.sub(r"old\((\w+)\)", r"\1", c)) for c in req]
        probes.append((pname, "    proof fn %s(s: %s%s)\n        requires\n%s        ensures false,\n    {}\n" % (pname, spec.get("container_override", unit.container).split()[-1], (", " + args) if args else "", "".join("            " + c + ",\n" for c in r2))))
    if spec.get("no_termination"):
        # partial correctness only for this function: stated per function in the unit file and reported as an assumption
        text = "    #[verifier::exec_allows_no_decreases_clause]\n" + "    " + text.strip("\n") + "\n"
        counts["termination_not_proved:" + spec["path"]] = 1
        return f, text, probes
    return f, "    " + text.strip("\n") + "\n", probes


def build_unit(unit, scratch, outdir):
    counts = {}
    srcp = os.path.join(scratch, unit.source)
    if not os.path.exists(srcp):
        raise Undecided("anchor lost: %s" % unit.source)
    raw = open(srcp, "rb").read()
    idx = vx_index(srcp)
    cache = {unit.source: (raw, idx)}

    def src_of(spec):
        sp = spec.get("source", unit.source)
        if sp not in cache:
            pp = os.path.join(scratch, sp)
            if not os.path.exists(pp):
                raise Undecided("anchor lost: %s" % sp)
            cache[sp] = (open(pp, "rb").read(), vx_index(pp))
        return cache[sp]

    if "R1" in unit.rules:
        check_accessor_impls(scratch, counts)
    if "R27" in unit.rules:
        check_flag_accessor_impls(scratch, counts)
    for eb in unit.d.get("expect_body", []):
        raw_e, idx_e = src_of(eb)
        fe = find_fn(idx_e, eb["path"], eb.get("trait"))
        got = " ".join(raw_e[fe["body_open"] : fe["body_close"] + 1].decode().split())
        if got != " ".join(eb["body"].split()):
            raise Undecided("anchor lost: body of %s is no longer %r (substitution rule not applicable)" % (eb["path"], eb["body"]))
        counts["expect_body_checked"] = counts.get("expect_body_checked", 0) + 1
    parts = ["use vstd::prelude::*;\nverus! {\n"]
    for pre in unit.preludes:
        parts.append("// ---- prelude: %s (assumptions) ----\n" % pre)
        parts.append(open(os.path.join(UNIT_DIR, pre)).read())
    parts.append("\n// ---- vacuity probe: MUST FAIL ----\nproof fn vacuity_probe()\n    ensures false,\n{}\n")
    if unit.extra:
        parts.append("\n// ---- unit-level spec functions and lemmas ----\n" + unit.extra + "\n")
    import_container = unit.d.get("import_container")
    parts.append("\n// ---- functions extracted by span from %s ----\n%s {\n" % (unit.source, unit.container))
    fn_meta = []
    probes_all = []
    body_parts = []
    for spec in unit.fns:
        raw_, idx_ = src_of(spec)
        f, text, probes = assemble_fn(unit, spec, idx_, raw_, counts)
        body_parts.append((spec, f, text, raw_))
        probes_all += probes
    cur = "".join(parts)
    line = cur.count("\n") + 1
    if import_container:
        # own functions first, then close the block and open the import block
        own = [b for b in body_parts if not b[0].get("imported_from")]
        imp = [b for b in body_parts if b[0].get("imported_from")]
        body_parts = own + [("SWITCH", None, "}\n\n// ---- imported contracts (external_body) ----\n%s {\n" % import_container, None)] + imp
    pre_parts = [b for b in body_parts if b[0] != "SWITCH" and b[0].get("container_override")]
    body_parts = [b for b in body_parts if b[0] == "SWITCH" or not b[0].get("container_override")]
    if pre_parts:
        # functions that belong to another type: own impl block, emitted before the main container
        marker = "\n// ---- functions extracted by span from %s ----\n%s {\n" % (unit.source, unit.container)
        head, tail = cur.rsplit(marker, 1)
        cur = head
        line = cur.count("\n") + 1
        for spec, f, text, raw in pre_parts:
            free = spec["container_override"] == "free"  # a free function: no impl block
            blk = "\n" if free else "\n%s {\n" % spec["container_override"]
            cur += blk
            line += blk.count("\n")
            n = text.count("\n")
            fn_meta.append({"path": spec["path"], "source": spec.get("source", unit.source), "name": spec["path"].split("::")[-1], "mode": spec.get("mode", "verify"), "imported_from": None, "first_line": line, "last_line": line + n, "repo_lines": [f["line"], f["end_line"]], "sha1": hashlib.sha1(raw[f["start"] : f["end"]]).hexdigest()[:12]})
            cur += text + ("\n" if free else "}\n")
            line += n + 1
        cur += marker + tail
        line = cur.count("\n") + 1
    for spec, f, text, raw in body_parts:
        if spec == "SWITCH":
            cur += text
            line += text.count("\n")
            continue
        n = text.count("\n")
        fn_meta.append(
            {
                "path": spec["path"],
                "source": spec.get("source", unit.source),
                "name": spec["path"].split("::")[-1],
                "mode": spec.get("mode", "verify"),
                "imported_from": spec.get("imported_from"),
                "first_line": line,
                "last_line": line + n,
                "repo_lines": [f["line"], f["end_line"]],
                "sha1": hashlib.sha1(raw[f["start"] : f["end"]]).hexdigest()[:12],
            }
        )
        cur += text + "\n"
        line += n + 1
    probe_meta = []
    for pname, ptext in probes_all:
        n = ptext.count("\n")
        probe_meta.append({"name": pname, "first_line": line, "last_line": line + n})
        cur += ptext + "\n"
        line += n + 1
    cur += "}\n\n} // verus!\nfn main() {}\n"
    os.makedirs(outdir, exist_ok=True)
    path = os.path.join(outdir, "%s.rs" % unit.name)
    with open(path, "w") as fh:
        fh.write(cur)
    return path, fn_meta, probe_meta, counts


ERR_RE = re.compile(r"^(error(?:\[E\d+\])?): (.*)\n\s+--> ([^:\n]+):(\d+):(\d+)", re.M)


def run_unit(unit, scratch):
    outdir = os.path.join(scratch, "verus_units")
    path, fn_meta, probe_meta, counts = build_unit(unit, scratch, outdir)
    if os.environ.get("VERIF_KEEP_UNITS"):
        import shutil

        shutil.copy(path, os.path.join(os.environ["VERIF_KEEP_UNITS"], os.path.basename(path)))
    rlimit = str(unit.d.get("rlimit", 30))
    cmd = ["verus", os.path.basename(path), "--output-json", "--time", "--multiple-errors", "50", "--rlimit", rlimit]
    rc, out, secs, to = run(cmd, cwd=outdir, timeout=int(unit.d.get("timeout", 600)))
    if to:
        raise Undecided("verus timed out on unit %s" % unit.name)
    # stdout json + stderr text are interleaved in `out` (stderr merged); split at first '{' line
    jtxt = None
    m = re.search(r"^\{\s*$", out, re.M)
    if m:
        depth = 0
        i = m.start()
        for j in range(i, len(out)):
            if out[j] == "{":
                depth += 1
            elif out[j] == "}":
                depth -= 1
                if depth == 0:
                    jtxt = out[i : j + 1]
                    errtxt = out[:i] + out[j + 1 :]
                    break
    if jtxt is None:
        raise Undecided("verus produced no JSON for unit %s: %s" % (unit.name, out[-800:]))
    try:
        J = json.loads(jtxt)
    except Exception:
        raise Undecided("verus JSON unparsable for unit %s" % unit.name)
    vr = J.get("verification-results", {})
    hard = re.search(r"^error\[E\d+\]|is not supported|^error: .*(unsupported|not yet supported|The verifier does not)", errtxt, re.M)
    if vr.get("encountered-vir-error") or ("verified" not in vr) or hard:
        raise Undecided("verus rejected unit %s (unsupported construct / type error): %s" % (unit.name, first_errors(errtxt)))
    breakdown = {}
    for mt in J.get("times-ms", {}).get("smt", {}).get("smt-run-module-times", []):
        for fb in mt.get("function-breakdown", []):
            breakdown[fb["function"].split("::")[-1]] = fb
    errors = []
    for em in ERR_RE.finditer(errtxt):
        errors.append({"msg": em.group(2).strip(), "line": int(em.group(4))})
    # errors that are not attributable -> hard errors
    def owner(line):
        for fm in fn_meta:
            if fm["first_line"] <= line <= fm["last_line"]:
                return ("fn", fm)
        for pm in probe_meta:
            if pm["first_line"] <= line <= pm["last_line"]:
                return ("probe", pm)
        return (None, None)

    per_fn = {fm["path"]: [] for fm in fn_meta}
    probe_failed = set()
    vacuity_failed = False
    stray = []
    # secondary locations: Verus prints the failing clause first and the function body location after; use all `-->`/`:::` lines of a block
    blocks = re.split(r"(?m)^(?=error)", errtxt)
    for b in blocks:
        hm = re.match(r"error(?:\[E\d+\])?: (.*)", b)
        if not hm:
            continue
        msg = hm.group(1).strip()
        if msg.startswith("aborting due to"):
            continue
        # only the error part: Verus appends `note:` sections (trigger choices) that point elsewhere
        b = re.split(r"(?m)^note:", b)[0]
        # the primary location (`-->`) decides the owner: the failed ensures/invariant/decreases clause
        # or, for a precondition, the call site; other locations are a fallback only
        prim = [int(x) for x in re.findall(r"--> [^:\n]+:(\d+):\d+", b)]
        rest = [int(x) for x in re.findall(r"::: [^:\n]+:(\d+):\d+", b)] + [int(x) for x in re.findall(r"^\s*(\d+) \|", b, re.M)]
        owners = [owner(l) for l in prim]
        if not any(o[0] for o in owners):
            owners = [owner(l) for l in rest]
        fn_own = [o[1] for o in owners if o[0] == "fn"]
        pr_own = [o[1] for o in owners if o[0] == "probe"]
        if "vacuity_probe" in b:
            vacuity_failed = True
            continue
        if pr_own and not fn_own:
            probe_failed.add(pr_own[0]["name"])
            continue
        if fn_own:
            per_fn[fn_own[0]["path"]].append(msg)
            continue
        stray.append(msg)
    if not vacuity_failed:
        raise Undecided("vacuity: `ensures false` verified in unit %s - prelude/axioms are contradictory" % unit.name)
    vac = [p["name"] for p in probe_meta if p["name"] not in probe_failed]
    if vac:
        raise Undecided("vacuity: precondition probes verified (unsatisfiable requires) in unit %s: %s" % (unit.name, ", ".join(vac)))
    if stray:
        raise Undecided("verus reported errors outside extracted functions in unit %s: %s" % (unit.name, "; ".join(stray[:3])))
    obligations = {}
    prop = unit.props[0]
    for fm in fn_meta:
        if fm["mode"] != "verify":
            continue
        oid = "%s/V/%s/%s" % (prop, unit.name, fm["name"])
        msgs = per_fn[fm["path"]]
        fb = breakdown.get(fm["name"])
        base = {
            "engine": "verus/z3",
            "kind": "V",
            "fns": fm["path"],
            "desc": "Verus: requires/ensures, loop invariants and termination measure of %s (%s lines %d-%d, sha1 %s)" % (fm["path"], fm["source"], fm["repo_lines"][0], fm["repo_lines"][1], fm["sha1"]),
            "time": (fb or {}).get("time-micros", 0) / 1e6 if fb else 0.0,
            "rlimit": (fb or {}).get("rlimit"),
        }
        if not msgs:
            if fb is not None and not fb.get("success", True):
                base.update(status="undecided", note="verus reports failure without a located message")
            else:
                base.update(status="discharged", nontrivial=True)
        else:
            kinds = []
            soft = []
            for msg in msgs:
                k = None
                for pat, name in DEFINITE:
                    if pat.search(msg):
                        k = name
                        break
                (kinds if k else soft).append(k or msg)
            if kinds:
                base.update(
                    status="failed",
                    sites=sorted(set("%s: %s" % (fm["name"], k) for k in kinds)),
                    note="; ".join(sorted(set(kinds))),
                    failed_checks=[{"description": m_} for m_ in msgs],
                    verifier_output=extract_fn_errors(errtxt, fm),
                    witness_hint={"source": fm["source"], "text": "\n".join(open(path).read().split("\n")[fm["first_line"] - 1 : fm["last_line"]])},
                )
            else:
                base.update(status="undecided", note="; ".join(soft)[:300])
        obligations[oid] = base
    assumptions = []
    ext = [fm["path"] + (" (contract proved in unit %s)" % fm["imported_from"] if fm.get("imported_from") else "") for fm in fn_meta if fm["mode"] == "external"]
    if ext:
        assumptions.append("verus unit %s: external_body (contract assumed, body not verified by Verus): %s" % (unit.name, ", ".join(ext)))
    for pre in unit.preludes:
        ptxt = open(os.path.join(UNIT_DIR, pre)).read()
        unit_prelude = pre
        assumptions.append("verus unit %s: prelude %s declares %d external_body items and %d assume_specification items (Lexer interface, char predicates, error conversion)" % (unit.name, unit_prelude, ptxt.count("external_body"), ptxt.count("assume_specification")))
    for k, v in sorted(counts.items()):
        assumptions.append("verus unit %s: rewrite %s applied %d time(s)" % (unit.name, k, v))
    whole = open(path).read()
    ext_names = sorted(set(re.findall(r"#\[verifier::external_body\]\s*(?:pub\s+)?(?:proof\s+)?fn\s+(\w+)", whole)))
    spec_names = sorted(set(re.findall(r"assume_specification\[\s*([^\]]+?)\s*\]", whole)))
    uninterp = sorted(set(re.findall(r"uninterp spec fn (\w+)", whole)))
    assumptions.append("verus unit %s: every external_body function in the verified file (contract assumed, body not seen by Verus): %s" % (unit.name, ", ".join(ext_names)))
    if spec_names:
        assumptions.append("verus unit %s: assume_specification for: %s" % (unit.name, ", ".join(spec_names)))
    if uninterp:
        assumptions.append("verus unit %s: uninterpreted spec functions: %s" % (unit.name, ", ".join(uninterp)))
    assumptions.append("verus unit %s: mechanical scan of generated file: assume=%d admit=%d external_body=%d assume_specification=%d" % (unit.name, len(re.findall(r"\bassume\(", whole)), len(re.findall(r"\badmit\(", whole)), whole.count("external_body"), whole.count("assume_specification")))
    meta = {
        "unit": unit.name,
        "cmd": " ".join(cmd),
        "wall_s": round(secs, 2),
        "verified": vr.get("verified"),
        "errors": vr.get("errors"),
        "functions": [fm["path"] for fm in fn_meta if fm["mode"] == "verify"],
        "external": ext,
        "rewrite_counts": counts,
        "assumptions": assumptions,
        "probes_must_fail": len(probe_meta) + 1,
    }
    return {"obligations": obligations, "meta": meta}


def first_errors(errtxt):
    errs = [m.group(0).replace("\n", " ") for m in ERR_RE.finditer(errtxt)]
    return " | ".join(errs[:4]) if errs else errtxt[-600:]


def extract_fn_errors(errtxt, fm):
    out = []
    for b in re.split(r"(?m)^(?=error)", errtxt):
        b = re.split(r"(?m)^note:", b)[0]
        lines = [int(x) for x in re.findall(r"(?:-->|:::) [^:\n]+:(\d+):\d+", b)] + [int(x) for x in re.findall(r"^\s*(\d+) \|", b, re.M)]
        if any(fm["first_line"] <= l <= fm["last_line"] for l in lines):
            out.append(b)
    return "\n".join(out)[:6000]
