//! vx — locator for the contract machinery in /verif.
//!
//! `vx index <file.rs>` parses a real source file of /repo with `syn` and prints,
//! as JSON, the exact byte spans of every function (free, inherent, trait default,
//! trait impl), of every loop inside it (with the pieces needed to splice a loop
//! contract in front of the body, or to desugar a `while let`), and of every
//! statement-position `debug_assert!`. Nothing is pretty-printed: the driver
//! copies source text by these spans, so the verified text is the repository's
//! text.
use proc_macro2::Span;
use std::fmt::Write as _;
use syn::spanned::Spanned;
use syn::visit::Visit;

fn br(s: Span) -> (usize, usize) {
    let r = s.byte_range();
    (r.start, r.end)
}

fn esc(s: &str) -> String {
    let mut o = String::new();
    for c in s.chars() {
        match c {
            '"' => o.push_str("\\\""),
            '\\' => o.push_str("\\\\"),
            '\n' => o.push_str("\\n"),
            '\t' => o.push_str("\\t"),
            c if (c as u32) < 0x20 => {
                let _ = write!(o, "\\u{:04x}", c as u32);
            }
            c => o.push(c),
        }
    }
    o
}

struct LoopInfo {
    kind: &'static str,
    start: usize,
    end: usize,
    body_open: usize,
    body_close: usize,
    line: usize,
    depth: usize,
    // while: cond span; while let: pat + expr spans; for: pat + expr
    a: Option<(usize, usize)>,
    b: Option<(usize, usize)>,
    label: Option<String>,
    binds: Vec<String>,
    by_ref: bool,
}

struct MacroInfo {
    name: String,
    start: usize,
    end: usize,
}

struct FnInfo {
    path: String,
    kind: &'static str,
    trait_: Option<String>,
    start: usize,
    end: usize,
    sig_start: usize,
    body_open: usize,
    body_close: usize,
    line: usize,
    end_line: usize,
    loops: Vec<LoopInfo>,
    macros: Vec<MacroInfo>,
    has_self: bool,
    ret: Option<(usize, usize)>,
}

struct BindVisitor {
    names: Vec<String>,
    by_ref: bool,
}
impl<'ast> Visit<'ast> for BindVisitor {
    fn visit_pat_ident(&mut self, p: &'ast syn::PatIdent) {
        // an identifier pattern starting with an uppercase letter is a constant / unit variant path
        let n = p.ident.to_string();
        if n.chars().next().map_or(false, |c| c.is_lowercase() || c == '_') {
            self.names.push(n);
        }
        if p.by_ref.is_some() {
            self.by_ref = true;
        }
        syn::visit::visit_pat_ident(self, p);
    }
}
fn binds_of(p: &syn::Pat) -> (Vec<String>, bool) {
    let mut b = BindVisitor { names: vec![], by_ref: false };
    b.visit_pat(p);
    (b.names, b.by_ref)
}

struct BodyVisitor<'a> {
    loops: &'a mut Vec<LoopInfo>,
    macros: &'a mut Vec<MacroInfo>,
    depth: usize,
}

fn block_braces(b: &syn::Block) -> (usize, usize) {
    let sp = b.brace_token.span;
    (br(sp.open()).0, br(sp.close()).0)
}

impl<'ast, 'a> Visit<'ast> for BodyVisitor<'a> {
    fn visit_expr_while(&mut self, w: &'ast syn::ExprWhile) {
        let (s, e) = br(w.span());
        let (bo, bc) = block_braces(&w.body);
        let label = w.label.as_ref().map(|l| l.name.ident.to_string());
        let (kind, a, b, binds, by_ref) = match &*w.cond {
            syn::Expr::Let(l) => {
                let (n, r) = binds_of(&l.pat);
                ("while_let", Some(br(l.pat.span())), Some(br(l.expr.span())), n, r)
            }
            c => ("while", Some(br(c.span())), None, vec![], false),
        };
        self.loops.push(LoopInfo {
            kind,
            start: s,
            end: e,
            body_open: bo,
            body_close: bc,
            line: w.span().start().line,
            depth: self.depth,
            a,
            b,
            label,
            binds,
            by_ref,
        });
        self.depth += 1;
        syn::visit::visit_expr_while(self, w);
        self.depth -= 1;
    }
    fn visit_expr_loop(&mut self, w: &'ast syn::ExprLoop) {
        let (s, e) = br(w.span());
        let (bo, bc) = block_braces(&w.body);
        let label = w.label.as_ref().map(|l| l.name.ident.to_string());
        self.loops.push(LoopInfo {
            kind: "loop",
            start: s,
            end: e,
            body_open: bo,
            body_close: bc,
            line: w.span().start().line,
            depth: self.depth,
            a: None,
            b: None,
            label,
            binds: vec![],
            by_ref: false,
        });
        self.depth += 1;
        syn::visit::visit_expr_loop(self, w);
        self.depth -= 1;
    }
    fn visit_expr_for_loop(&mut self, w: &'ast syn::ExprForLoop) {
        let (s, e) = br(w.span());
        let (bo, bc) = block_braces(&w.body);
        let label = w.label.as_ref().map(|l| l.name.ident.to_string());
        self.loops.push(LoopInfo {
            kind: "for",
            start: s,
            end: e,
            body_open: bo,
            body_close: bc,
            line: w.span().start().line,
            depth: self.depth,
            a: Some(br(w.pat.span())),
            b: Some(br(w.expr.span())),
            label,
            binds: binds_of(&w.pat).0,
            by_ref: false,
        });
        self.depth += 1;
        syn::visit::visit_expr_for_loop(self, w);
        self.depth -= 1;
    }
    fn visit_stmt_macro(&mut self, m: &'ast syn::StmtMacro) {
        let name = m
            .mac
            .path
            .segments
            .last()
            .map(|s| s.ident.to_string())
            .unwrap_or_default();
        let (s, e) = br(m.span());
        self.macros.push(MacroInfo { name, start: s, end: e });
    }
    // closures and nested fns: loops inside are still reported (depth kept)
}

struct FileVisitor {
    scope: Vec<String>,
    cur_trait: Option<String>,
    fns: Vec<FnInfo>,
}

fn type_name(t: &syn::Type) -> String {
    match t {
        syn::Type::Path(p) => p
            .path
            .segments
            .last()
            .map(|s| s.ident.to_string())
            .unwrap_or_else(|| "?".into()),
        syn::Type::Reference(r) => type_name(&r.elem),
        _ => "?".into(),
    }
}

fn path_str(p: &syn::Path) -> String {
    let mut s = String::new();
    for (i, seg) in p.segments.iter().enumerate() {
        if i > 0 {
            s.push_str("::");
        }
        s.push_str(&seg.ident.to_string());
        if let syn::PathArguments::AngleBracketed(a) = &seg.arguments {
            s.push('<');
            for (j, arg) in a.args.iter().enumerate() {
                if j > 0 {
                    s.push(',');
                }
                if let syn::GenericArgument::Type(t) = arg {
                    s.push_str(&type_name(t));
                } else {
                    s.push('_');
                }
            }
            s.push('>');
        }
    }
    s
}

impl FileVisitor {
    fn push_fn(
        &mut self,
        kind: &'static str,
        name: String,
        whole: Span,
        sig: &syn::Signature,
        block: Option<&syn::Block>,
    ) {
        let mut path = self.scope.join("::");
        if !path.is_empty() {
            path.push_str("::");
        }
        path.push_str(&name);
        let (s, e) = br(whole);
        let (bo, bc) = match block {
            Some(b) => block_braces(b),
            None => (0, 0),
        };
        let mut loops = Vec::new();
        let mut macros = Vec::new();
        if let Some(b) = block {
            let mut bv = BodyVisitor { loops: &mut loops, macros: &mut macros, depth: 0 };
            bv.visit_block(b);
        }
        let has_self = sig.receiver().is_some();
        self.fns.push(FnInfo {
            path,
            kind,
            trait_: self.cur_trait.clone(),
            start: s,
            end: e,
            sig_start: br(sig.span()).0,
            body_open: bo,
            body_close: bc,
            line: whole.start().line,
            end_line: whole.end().line,
            loops,
            macros,
            has_self,
            ret: match &sig.output {
                syn::ReturnType::Default => None,
                syn::ReturnType::Type(_, t) => Some(br(t.span())),
            },
        });
    }
}

impl<'ast> Visit<'ast> for FileVisitor {
    fn visit_item_mod(&mut self, m: &'ast syn::ItemMod) {
        self.scope.push(m.ident.to_string());
        syn::visit::visit_item_mod(self, m);
        self.scope.pop();
    }
    fn visit_item_fn(&mut self, f: &'ast syn::ItemFn) {
        self.push_fn("free", f.sig.ident.to_string(), f.span(), &f.sig, Some(&f.block));
    }
    fn visit_item_impl(&mut self, i: &'ast syn::ItemImpl) {
        let ty = type_name(&i.self_ty);
        self.scope.push(ty);
        let saved = self.cur_trait.take();
        self.cur_trait = i.trait_.as_ref().map(|(_, p, _)| path_str(p));
        for it in &i.items {
            if let syn::ImplItem::Fn(f) = it {
                self.push_fn(
                    if self.cur_trait.is_some() { "trait_impl" } else { "impl" },
                    f.sig.ident.to_string(),
                    f.span(),
                    &f.sig,
                    Some(&f.block),
                );
            }
        }
        self.cur_trait = saved;
        self.scope.pop();
    }
    fn visit_item_trait(&mut self, t: &'ast syn::ItemTrait) {
        self.scope.push(t.ident.to_string());
        for it in &t.items {
            if let syn::TraitItem::Fn(f) = it {
                self.push_fn(
                    if f.default.is_some() { "trait_default" } else { "trait_decl" },
                    f.sig.ident.to_string(),
                    f.span(),
                    &f.sig,
                    f.default.as_ref(),
                );
            }
        }
        self.scope.pop();
    }
}

fn opt_span(o: &Option<(usize, usize)>) -> String {
    match o {
        Some((a, b)) => format!("[{},{}]", a, b),
        None => "null".into(),
    }
}

fn main() {
    let args: Vec<String> = std::env::args().collect();
    if args.len() != 3 || args[1] != "index" {
        eprintln!("usage: vx index <file.rs>");
        std::process::exit(2);
    }
    let src = match std::fs::read_to_string(&args[2]) {
        Ok(s) => s,
        Err(e) => {
            eprintln!("vx: cannot read {}: {}", args[2], e);
            std::process::exit(2);
        }
    };
    let file = match syn::parse_file(&src) {
        Ok(f) => f,
        Err(e) => {
            eprintln!("vx: cannot parse {}: {}", args[2], e);
            std::process::exit(2);
        }
    };
    let mut v = FileVisitor { scope: vec![], cur_trait: None, fns: vec![] };
    v.visit_file(&file);
    let mut out = String::new();
    out.push_str("{\"file\":\"");
    out.push_str(&esc(&args[2]));
    out.push_str("\",\"fns\":[");
    for (i, f) in v.fns.iter().enumerate() {
        if i > 0 {
            out.push(',');
        }
        let _ = write!(
            out,
            "\n{{\"path\":\"{}\",\"kind\":\"{}\",\"trait\":{},\"start\":{},\"end\":{},\"sig_start\":{},\"body_open\":{},\"body_close\":{},\"line\":{},\"end_line\":{},\"has_self\":{},\"ret\":{},\"loops\":[",
            esc(&f.path),
            f.kind,
            match &f.trait_ {
                Some(t) => format!("\"{}\"", esc(t)),
                None => "null".into(),
            },
            f.start,
            f.end,
            f.sig_start,
            f.body_open,
            f.body_close,
            f.line,
            f.end_line,
            f.has_self,
            opt_span(&f.ret)
        );
        for (j, l) in f.loops.iter().enumerate() {
            if j > 0 {
                out.push(',');
            }
            let _ = write!(
                out,
                "{{\"kind\":\"{}\",\"start\":{},\"end\":{},\"body_open\":{},\"body_close\":{},\"line\":{},\"depth\":{},\"a\":{},\"b\":{},\"label\":{},\"binds\":[{}],\"by_ref\":{}}}",
                l.kind,
                l.start,
                l.end,
                l.body_open,
                l.body_close,
                l.line,
                l.depth,
                opt_span(&l.a),
                opt_span(&l.b),
                match &l.label {
                    Some(s) => format!("\"{}\"", esc(s)),
                    None => "null".into(),
                },
                l.binds.iter().map(|b| format!("\"{}\"", esc(b))).collect::<Vec<_>>().join(","),
                l.by_ref
            );
        }
        out.push_str("],\"macros\":[");
        for (j, m) in f.macros.iter().enumerate() {
            if j > 0 {
                out.push(',');
            }
            let _ = write!(out, "{{\"name\":\"{}\",\"start\":{},\"end\":{}}}", esc(&m.name), m.start, m.end);
        }
        out.push_str("]}");
    }
    out.push_str("\n]}\n");
    print!("{}", out);
}
