#!/usr/bin/env python3
"""Collects the confirmed seeded changes into /verif/seeded/<id>/ (patch.diff, demonstration, meta.json).
Inputs: /tmp/seed-out/<prop>/<a|b>/ (sub-agent deliverables), /tmp/confirm_batch*.log (my own confirmation in a
scratch worktree), /tmp/seedrun.log (my checks run against /repo with the patch applied, then reverted)."""
import glob, json, os, re, shutil, sys

OUT = "/verif/seeded"
confirm = {}
for f in glob.glob("/tmp/confirm_batch*.log"):
    for l in open(f):
        m = re.match(r"CONFIRM (\S+) suite_passed=(\d+) suite_failed=(\d+) demo_unchanged_rc=(\d+) demo_changed_rc=(\d+)", l)
        if m:
            confirm[m.group(1)] = dict(suite_passed=int(m.group(2)), suite_failed=int(m.group(3)), demo_unchanged_rc=int(m.group(4)), demo_changed_rc=int(m.group(5)))
checks = {}
for l in [x for f in sorted(glob.glob("/tmp/seedrun*.log")) for x in open(f)]:
    m = re.match(r"SEEDCHECK (\S+) property=(\S+) rc=(\d+) violations=(\d+) ?(.*)", l)
    if m:
        checks.setdefault(m.group(1), []).append(dict(property=m.group(2), exit_code=int(m.group(3)), violations=int(m.group(4)), failed_obligations=[x for x in m.group(5).replace("no-failing-input-found", "").split() if x]))
rows = []
for d in sorted(glob.glob("/tmp/seed-out/C??/[ab]")):
    prop, v = d.split("/")[-2:]
    sid = prop + v
    c = confirm.get(d)
    if not c or c["suite_failed"] != 0 or c["demo_unchanged_rc"] != 0 or c["demo_changed_rc"] == 0:
        print("NOT KEPT (not confirmed):", sid, c)
        continue
    dst = os.path.join(OUT, sid)
    os.makedirs(dst, exist_ok=True)
    shutil.copy(os.path.join(d, "patch.diff"), dst)
    for f in glob.glob(os.path.join(d, "demo*")) + glob.glob(os.path.join(d, "*.scss")) + glob.glob(os.path.join(d, "*.sass")) + glob.glob(os.path.join(d, "*.rs")):
        if os.path.isfile(f) and os.path.getsize(f) < 200000:
            shutil.copy(f, dst)
    am = {}
    try:
        am = json.load(open(os.path.join(d, "meta.json")))
    except Exception:
        pass
    res = checks.get(d, [])
    caught = [r for r in res if r["exit_code"] == 1]
    meta = {
        "id": sid,
        "property": prop,
        "breaks": am.get("summary"),
        "needs_to_manifest": am.get("needs"),
        "files_changed": am.get("files"),
        "written_by": "independent sub-agent given only the property record and a scratch worktree of /repo (nothing from /verif)",
        "confirmed_by_me": {
            "how": "tools/confirm_seed.sh <seed> <scratch worktree>: git apply in the worktree, cargo build, cargo test --workspace --no-fail-fast --offline (unedited suite), demonstration run on the unchanged and on the changed tree",
            "suite_passed": c["suite_passed"], "suite_failed": c["suite_failed"],
            "demo_exit_unchanged_tree": c["demo_unchanged_rc"], "demo_exit_changed_tree": c["demo_changed_rc"],
        },
        "checks_run_against_it": {
            "how": "tools/seedcheck.sh: git -C /repo apply patch.diff; bin/check <property> --tier quick; git -C /repo checkout -- .",
            "results": res,
        },
        "caught": bool(caught),
        "caught_by": sorted(set(o for r in caught for o in r["failed_obligations"])),
    }
    try:  # keep the hand-written note of an earlier collection
        meta["note"] = json.load(open(os.path.join(dst, "meta.json")))["note"]
    except Exception:
        pass
    json.dump(meta, open(os.path.join(dst, "meta.json"), "w"), indent=1)
    rows.append(meta)
json.dump([{k: r[k] for k in ("id", "property", "caught", "caught_by")} for r in rows], open(os.path.join(OUT, "SUMMARY.json"), "w"), indent=1)
for r in rows:
    print("%-5s caught=%-5s %s" % (r["id"], r["caught"], ", ".join(r["caught_by"])))
