#!/bin/bash
# confirm_seed.sh <seed-dir> <scratch-worktree>
# Confirms, in a scratch worktree (never /repo), that a seeded change (patch.diff + demo):
#   compiles, passes the unedited suite, and that its demonstration fails with the
#   change and passes without it. Prints one CONFIRM line; writes confirm.log in the seed dir.
set -u
SEED=$(realpath "$1"); WT=$(realpath "$2")
LOG="$SEED/confirm.log"; : > "$LOG"
cd "$WT" || exit 2
git checkout -q -- . && git clean -fdq -e target >/dev/null 2>&1
demo="$SEED/demo.sh"
run_demo() { # $1 = label
  if [ -f "$demo" ]; then timeout 900 bash "$demo" "$WT" >> "$LOG" 2>&1; echo $?; else echo 99; fi
}
echo "== demo on unchanged tree" >> "$LOG"
base=$(run_demo base)
if ! git apply --check "$SEED/patch.diff" 2>>"$LOG"; then echo "CONFIRM $SEED patch-does-not-apply"; exit 1; fi
git apply "$SEED/patch.diff"
echo "== build" >> "$LOG"
if ! cargo build --offline -j 8 >> "$LOG" 2>&1; then echo "CONFIRM $SEED build-failed"; git checkout -q -- .; exit 1; fi
echo "== suite" >> "$LOG"
cargo test --workspace --no-fail-fast --offline -j 8 > "$SEED/suite.log" 2>&1
passed=$(grep "test result" "$SEED/suite.log" | awk '{p+=$4} END {print p+0}')
failed=$(grep "test result" "$SEED/suite.log" | awk '{f+=$6} END {print f+0}')
echo "== demo on changed tree" >> "$LOG"
mut=$(run_demo mut)
git checkout -q -- .
echo "CONFIRM $SEED suite_passed=$passed suite_failed=$failed demo_unchanged_rc=$base demo_changed_rc=$mut"
