#!/bin/bash
# seedcheck.sh <seed-dir> <property> [more properties...]
# Applies the seeded patch to /repo's working tree, runs the quick check of each property,
# and restores /repo straight afterwards. Prints one SEEDCHECK line per property.
set -u
SEED=$(realpath "$1"); shift
cd /verif
export VERIF_EVIDENCE_DIR="$SEED/evidence"   # seeded runs must not replace the committed evidence
mkdir -p "$VERIF_EVIDENCE_DIR"
if [ -n "$(git -C /repo status --porcelain --untracked-files=no)" ]; then echo "SEEDCHECK refused: /repo is dirty"; exit 2; fi
git -C /repo apply "$SEED/patch.diff" || { echo "SEEDCHECK $SEED patch-does-not-apply"; exit 2; }
trap 'git -C /repo checkout -- .' EXIT
for P in "$@"; do
  out="$SEED/check_$P.log"
  bin/check "$P" --tier quick > "$out" 2>&1; rc=$?
  viol=$(grep -c "^VIOLATION" "$out")
  echo "SEEDCHECK $SEED property=$P rc=$rc violations=$viol $(grep '^VIOLATION' "$out" | sed 's/.*obligation=//' | tr '\n' ' ')"
done
