use syn::spanned::Spanned;
use syn::visit::Visit;
struct V;
impl<'ast> Visit<'ast> for V {
    fn visit_impl_item_fn(&mut self, f: &'ast syn::ImplItemFn) {
        let s = f.span();
        println!("fn {} lines {}..{}", f.sig.ident, s.start().line, s.end().line);
        syn::visit::visit_impl_item_fn(self, f);
    }
    fn visit_trait_item_fn(&mut self, f: &'ast syn::TraitItemFn) {
        let s = f.span();
        println!("trait fn {} lines {}..{}", f.sig.ident, s.start().line, s.end().line);
    }
    fn visit_expr_while(&mut self, w: &'ast syn::ExprWhile) {
        println!("  while at line {}", w.span().start().line);
        syn::visit::visit_expr_while(self, w);
    }
    fn visit_expr_loop(&mut self, w: &'ast syn::ExprLoop) {
        println!("  loop at line {}", w.span().start().line);
        syn::visit::visit_expr_loop(self, w);
    }
}
fn main() {
    let p = std::env::args().nth(1).unwrap();
    let src = std::fs::read_to_string(p).unwrap();
    let file = syn::parse_file(&src).unwrap();
    V.visit_file(&file);
}
