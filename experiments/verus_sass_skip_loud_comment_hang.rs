use vstd::prelude::*;
verus! {

// ---- prelude (stubs for types outside the verified slice) ----
#[derive(Copy, Clone, Debug)]
pub struct Span { pub lo: u64, pub hi: u64 }

pub struct SassError { }
pub type SassResult<T> = Result<T, Box<SassError>>;

#[verifier::external_body]
pub fn mk_err<T>(msg: &str, span: Span) -> (r: SassResult<T>)
    ensures r is Err
{ unimplemented!() }

#[derive(Copy, Clone, Debug, Eq, PartialEq)]
pub struct Token {
    pub kind: char,
    pub pos: u32,
}

pub struct Lexer {
    pub buf: Vec<Token>,
    pub cursor: usize,
}

impl Lexer {
    #[verifier::external_body]
    pub fn peek(&self) -> (r: Option<Token>)
        ensures
            self.cursor < self.buf.len() ==> r == Some(self.buf@[self.cursor as int]),
            self.cursor >= self.buf.len() ==> r is None,
    {
        self.buf.get(self.cursor).copied()
    }

    #[verifier::external_body]
    pub fn next(&mut self) -> (r: Option<Token>)
        requires old(self).cursor <= old(self).buf.len()
        ensures
            final(self).buf == old(self).buf,
            old(self).cursor < old(self).buf.len() ==> r == Some(old(self).buf@[old(self).cursor as int]) && final(self).cursor == old(self).cursor + 1,
            old(self).cursor >= old(self).buf.len() ==> r is None && final(self).cursor == old(self).cursor,
    {
        let r = self.buf.get(self.cursor).copied();
        if r.is_some() { self.cursor += 1; }
        r
    }
}

pub struct SassParser {
    pub toks: Lexer,
}

impl SassParser {
    fn skip_loud_comment(&mut self) -> SassResult<()>
        requires old(self).toks.cursor <= old(self).toks.buf.len()
    {
        loop
            invariant self.toks.cursor <= self.toks.buf.len()
            decreases self.toks.buf.len() - self.toks.cursor
        {
            let mut next = self.toks.next();
            match next {
                Some(Token { kind: '\n', .. }) => {
                    return mk_err("expected */.", Span{lo:0,hi:0});
                }
                Some(Token { kind: '*', .. }) => {}
                _ => continue,
            }

            loop
                invariant self.toks.cursor <= self.toks.buf.len()
                decreases self.toks.buf.len() - self.toks.cursor
            {
                next = self.toks.next();

                if !matches!(next, Some(Token { kind: '*', .. })) {
                    break;
                }
            }

            if matches!(next, Some(Token { kind: '/', .. })) {
                break;
            }
        }

        Ok(())
    }
}

} // verus!
fn main() {}
