//@ target: crates/compiler/src/evaluate/css_tree.rs
//@ module: verif_kani_c04
//@ props: C04
//! Parent/child bookkeeping of the CSS tree (C04 mech 2). The statement payload is
//! an opaque `CssStmt::Comment`; trees are never dropped (`CssStmt`'s drop glue
//! reaches `Value`'s and from there `HashMap`'s: Kani ICE, DESIGN E-K7).
use crate::lexer::verif_kani_support::span_of;
use std::mem::ManuallyDrop;

fn stmt() -> CssStmt {
    CssStmt::Comment(String::new(), span_of(0, 0))
}

/// representation invariant of the index maps for a tree with `n` statements
/// (index 0 is the tombstone root)
fn tree_ok(t: &CssTree, n: usize) -> bool {
    if t.stmts.len() != n {
        return false;
    }
    let mut ok = true;
    let mut c = 1;
    while c < n {
        // every statement has exactly one parent, with a smaller index, that lists it exactly once
        match t.child_to_parent.get(&CssTreeIdx(c)) {
            None => ok = false,
            Some(p) => {
                ok = ok && p.0 < c;
                match t.parent_to_child.get(p) {
                    None => ok = false,
                    Some(kids) => {
                        let mut count = 0;
                        let mut i = 0;
                        while i < kids.len() {
                            if kids[i] == CssTreeIdx(c) {
                                count += 1;
                            }
                            i += 1;
                        }
                        ok = ok && count == 1;
                    }
                }
            }
        }
        c += 1;
    }
    ok && t.child_to_parent.get(&CssTree::ROOT).is_none()
}

//@ ob: id=C04/K/css_tree_links kind=K-bounded fns=CssTree::new,CssTree::add_stmt,CssTree::add_child,CssTree::has_following_sibling bound="every sequence of 3 insertions under symbolic existing parents"
//@ desc: after any 3 insertions (each under the root or any existing node): indices are assigned in insertion order, every node has exactly one parent with a smaller index that lists it exactly once, children lists are in insertion order, and has_following_sibling(c) is true exactly when c is not the last child of its parent (false for the root)
#[kani::proof]
#[kani::unwind(6)]
fn c04_css_tree_links() {
    let mut t = ManuallyDrop::new(CssTree::new());
    assert!(tree_ok(&t, 1), "C04/K/css_tree_links: new()");
    assert!(!t.has_following_sibling(CssTree::ROOT), "C04/K/css_tree_links: root has no sibling");
    let mut parents = [0usize; 4];
    let mut k = 1;
    while k <= 3 {
        let p: usize = kani::any();
        kani::assume(p < k);
        let idx = if p == 0 && kani::any() { t.add_stmt(stmt(), None) } else { t.add_stmt(stmt(), Some(CssTreeIdx(p))) };
        assert!(idx.0 == k, "C04/K/css_tree_links: indices follow insertion order");
        parents[k] = p;
        assert!(tree_ok(&t, k + 1), "C04/K/css_tree_links: invariant after insertion");
        // the new node is the last child of its parent; every earlier node of that parent now has a following sibling
        assert!(!t.has_following_sibling(idx), "C04/K/css_tree_links: newest child is last");
        let mut c = 1;
        while c < k {
            if parents[c] == p {
                assert!(t.has_following_sibling(CssTreeIdx(c)), "C04/K/css_tree_links: earlier sibling has a following sibling");
            }
            c += 1;
        }
        k += 1;
    }
    kani::cover!(parents[2] == 1 && parents[3] == 1);
    kani::cover!(parents[3] == 0);
}
