//@ target: crates/compiler/src/selector/parse.rs
//@ module: verif_kani_c01_selector
//@ props: C01
//! The two SelectorParser methods the Verus unit `selector_parser` keeps `external_body`
//! (parse_a_n_plus_b mutates inside a guarded arm, E-V3; eat_whitespace goes through the
//! closure-taking raw_text helper), checked on the real methods for short buffers.
use crate::lexer::verif_kani_support::*;

fn format_stub(_args: std::fmt::Arguments<'_>) -> String {
    String::new()
}

/// every token of the (<= 4 token) buffer is one of `alphabet`
fn assume_alphabet(l: &Lexer, alphabet: &[char]) {
    let buf = lexer_buf(l);
    let mut i = 0;
    while i < buf.len() {
        let k = buf[i].kind;
        let mut ok = false;
        let mut j = 0;
        while j < alphabet.len() {
            if alphabet[j] == k {
                ok = true;
            }
            j += 1;
        }
        kani::assume(ok);
        i += 1;
    }
}

fn frame_ok(p: &SelectorParser, before: &Vec<Token>, c0: usize) -> bool {
    lexer_buf(&p.toks) == before && p.toks.cursor() <= before.len() && p.toks.cursor() >= c0
}

//@ ob: id=C01/K/selector_a_n_plus_b kind=K-bounded fns=SelectorParser::parse_a_n_plus_b bound="buffer <= 4 tokens over the alphabet {e,o,d,n,+,-,1,space,x} (no escapes); unwind 10; format! stubbed"
//@ desc: parse_a_n_plus_b (the An+B microsyntax of :nth-child) returns, keeps the cursor inside the buffer, never moves it backwards and never touches the buffer (the contract the Verus unit selector_parser assumes)
#[kani::proof]
#[kani::unwind(10)]
#[kani::stub(alloc::fmt::format, format_stub)]
fn c01_selector_a_n_plus_b() {
    let toks = any_wf_lexer();
    assume_alphabet(&toks, &['e', 'o', 'd', 'n', '+', '-', '1', ' ', 'x']);
    let span = lexer_entire_span(&toks);
    let mut p = SelectorParser::new(toks, kani::any(), kani::any(), span);
    let before = lexer_buf(&p.toks).clone();
    let c0 = p.toks.cursor();
    let r = p.parse_a_n_plus_b();
    assert!(frame_ok(&p, &before, c0), "C01/K/selector_a_n_plus_b: frame");
    kani::cover!(r.is_ok());
    kani::cover!(r.is_err());
    core::mem::forget(r);
}

//@ ob: id=C01/K/selector_eat_whitespace kind=K-bounded fns=SelectorParser::eat_whitespace bound="buffer <= 4 tokens over the alphabet {space,newline,/,*,a}; unwind 10; format! stubbed"
//@ desc: eat_whitespace returns, keeps the cursor inside the buffer, never moves it backwards and never touches the buffer (the contract the Verus unit selector_parser assumes)
#[kani::proof]
#[kani::unwind(10)]
#[kani::stub(alloc::fmt::format, format_stub)]
fn c01_selector_eat_whitespace() {
    let toks = any_wf_lexer();
    assume_alphabet(&toks, &[' ', '\n', '/', '*', 'a']);
    let span = lexer_entire_span(&toks);
    let mut p = SelectorParser::new(toks, kani::any(), kani::any(), span);
    let before = lexer_buf(&p.toks).clone();
    let c0 = p.toks.cursor();
    let _ = p.eat_whitespace();
    assert!(frame_ok(&p, &before, c0), "C01/K/selector_eat_whitespace: frame");
    kani::cover!(p.toks.cursor() > c0);
}
