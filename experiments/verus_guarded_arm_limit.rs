use vstd::prelude::*;
verus! {

// ---- prelude ----
#[derive(Copy, Clone, Debug)]
pub struct Span { pub lo: u64, pub hi: u64 }
pub struct SassError { }
pub type SassResult<T> = Result<T, Box<SassError>>;

impl From<(&'static str, Span)> for Box<SassError> {
    #[verifier::external_body]
    fn from(e: (&'static str, Span)) -> Box<SassError> { unimplemented!() }
}
impl From<(String, Span)> for Box<SassError> {
    #[verifier::external_body]
    fn from(e: (String, Span)) -> Box<SassError> { unimplemented!() }
}

#[derive(Copy, Clone, Debug, Eq, PartialEq)]
pub struct Token { pub kind: char, pub pos: u32 }

pub struct Lexer { pub buf: Vec<Token>, pub cursor: usize }

impl Lexer {
    pub open spec fn wf(&self) -> bool { self.cursor <= self.buf.len() }
    pub open spec fn rem(&self) -> int { self.buf.len() - self.cursor }

    #[verifier::external_body]
    pub fn peek(&self) -> (r: Option<Token>)
        ensures
            self.cursor < self.buf.len() ==> r == Some(self.buf@[self.cursor as int]),
            self.cursor >= self.buf.len() ==> r is None,
    { unimplemented!() }

    #[verifier::external_body]
    pub fn peek_n(&self, n: usize) -> (r: Option<Token>)
        ensures
            self.cursor + n < self.buf.len() ==> r == Some(self.buf@[self.cursor + n]),
            self.cursor + n >= self.buf.len() ==> r is None,
    { unimplemented!() }

    #[verifier::external_body]
    pub fn next_char_is(&self, c: char) -> (r: bool)
        ensures r == (self.cursor < self.buf.len() && self.buf@[self.cursor as int].kind == c)
    { unimplemented!() }

    #[verifier::external_body]
    pub fn current_span(&self) -> Span { unimplemented!() }

    #[verifier::external_body]
    pub fn next(&mut self) -> (r: Option<Token>)
        ensures
            final(self).buf == old(self).buf,
            old(self).cursor < old(self).buf.len() ==> r == Some(old(self).buf@[old(self).cursor as int]) && final(self).cursor == old(self).cursor + 1,
            old(self).cursor >= old(self).buf.len() ==> r is None && final(self).cursor == old(self).cursor,
    { unimplemented!() }
}

pub struct P { pub toks: Lexer }

impl P {
    fn whitespace_without_comments(&mut self)
        requires old(self).toks.wf()
        ensures final(self).toks.wf(), final(self).toks.buf == old(self).toks.buf, final(self).toks.cursor >= old(self).toks.cursor
    {
        while matches!(
            self.toks.peek(),
            Some(Token {
                kind: ' ' | '\t' | '\n',
                ..
            })
        )
            invariant self.toks.wf(), self.toks.buf == old(self).toks.buf, self.toks.cursor >= old(self).toks.cursor
            decreases self.toks.rem()
        {
            self.toks.next();
        }
    }

    fn whitespace(&mut self) -> (r: SassResult<()>)
        requires old(self).toks.wf()
        ensures final(self).toks.wf(), final(self).toks.buf == old(self).toks.buf, final(self).toks.cursor >= old(self).toks.cursor
    {
        loop
            invariant self.toks.wf(), self.toks.buf == old(self).toks.buf, self.toks.cursor >= old(self).toks.cursor
            decreases self.toks.rem()
        {
            self.whitespace_without_comments();

            if !self.scan_comment()? {
                break;
            }
        }

        Ok(())
    }

    fn scan_comment(&mut self) -> (r: SassResult<bool>)
        requires old(self).toks.wf()
        ensures final(self).toks.wf(), final(self).toks.buf == old(self).toks.buf, final(self).toks.cursor >= old(self).toks.cursor,
            r == Ok::<bool, Box<SassError>>(true) ==> final(self).toks.cursor > old(self).toks.cursor
    {
        if !matches!(self.toks.peek(), Some(Token { kind: '/', .. })) {
            return Ok(false);
        }

        Ok(match self.toks.peek_n(1) {
            Some(Token { kind: '/', .. }) => {
                self.skip_silent_comment()?;
                true
            }
            Some(Token { kind: '*', .. }) => {
                self.skip_loud_comment()?;
                true
            }
            _ => false,
        })
    }

    fn skip_silent_comment(&mut self) -> (r: SassResult<()>)
        requires old(self).toks.wf(), old(self).toks.cursor + 2 <= old(self).toks.buf.len()
        ensures final(self).toks.wf(), final(self).toks.buf == old(self).toks.buf, final(self).toks.cursor >= old(self).toks.cursor + 2
    {
        self.toks.next();
        self.toks.next();
        while self.toks.peek().is_some() && !self.toks.next_char_is('\n')
            invariant self.toks.wf(), self.toks.buf == old(self).toks.buf, self.toks.cursor >= old(self).toks.cursor + 2
            decreases self.toks.rem()
        {
            self.toks.next();
        }
        Ok(())
    }

    fn skip_loud_comment(&mut self) -> (r: SassResult<()>)
        requires old(self).toks.wf(), old(self).toks.cursor + 2 <= old(self).toks.buf.len()
        ensures final(self).toks.wf(), final(self).toks.buf == old(self).toks.buf, final(self).toks.cursor >= old(self).toks.cursor + 2
    {
        self.toks.next();
        self.toks.next();

        loop
            invariant self.toks.wf(), self.toks.buf == old(self).toks.buf, self.toks.cursor >= old(self).toks.cursor + 2
            decreases self.toks.rem()
        { let next = match self.toks.next() { Some(next) => next, _ => break };
            if next.kind != '*' {
                continue;
            }

            let ghost c0 = self.toks.cursor;
            while self.scan_char('*')
                invariant self.toks.wf(), self.toks.buf == old(self).toks.buf, self.toks.cursor >= old(self).toks.cursor + 2, self.toks.cursor >= c0
                decreases self.toks.rem()
            {}

            if self.scan_char('/') {
                return Ok(());
            }
        }

        Err(("expected more input.", self.toks.current_span()).into())
    }

    fn scan_char(&mut self, c: char) -> (r: bool)
        requires old(self).toks.wf()
        ensures final(self).toks.wf(), final(self).toks.buf == old(self).toks.buf,
            r ==> final(self).toks.cursor == old(self).toks.cursor + 1,
            !r ==> final(self).toks.cursor == old(self).toks.cursor,
    {
        if let Some(Token { kind, .. }) = self.toks.peek() {
            if kind == c {
                self.toks.next();
                return true;
            }
        }

        false
    }

    fn expect_char(&mut self, c: char) -> (r: SassResult<()>)
        requires old(self).toks.wf()
        ensures final(self).toks.wf(), final(self).toks.buf == old(self).toks.buf, final(self).toks.cursor >= old(self).toks.cursor
    {
        match self.toks.peek() {
            Some(tok) if tok.kind == c => {
                self.toks.next();
                Ok(())
            }
            Some(..) | None => {
                Ok(())
            }
        }
    }
}
} // verus!
fn main() {}
